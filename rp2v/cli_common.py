"""Helpers shared by the CLI-level checks (C12-C20): running a file case through the console entry point, crash
bucketing, a bounded delta-debugging minimiser for file cases."""
from __future__ import annotations

import copy
import itertools
import os
import re
import shutil
from typing import Any, Callable, Dict, List, Optional, Tuple

from . import cli, filegen, model

_COUNTER = itertools.count()


def work_dir(tag: str = "case") -> str:
    path = os.path.join(os.getcwd(), f"{tag}_{os.getpid()}_{next(_COUNTER)}")
    os.makedirs(path, exist_ok=True)
    return path


def run_case(
    case: Dict[str, Any],
    folder: Optional[str] = None,
    hashseed: str = "0",
    extra_args: Tuple[str, ...] = (),
    audit_log: Optional[str] = None,
    outdir: Optional[str] = None,
    paths: Optional[Tuple[str, str]] = None,
    env_extra: Optional[Dict[str, str]] = None,
) -> Tuple[cli.CliResult, str, str, str]:
    """Materialize the case (unless `paths` = already written (ini, ods)) and run its entry point; returns (result, ini, ods, outdir)."""
    folder = folder or work_dir()
    os.makedirs(folder, exist_ok=True)
    ini, ods = paths if paths else filegen.materialize(case, folder)
    outdir = outdir or os.path.join(folder, "out")
    args = cli.build_args(
        ini,
        ods,
        outdir,
        method=case.get("method"),
        lang=case.get("lang"),
        from_date=case.get("from"),
        to_date=case.get("to"),
        allow_negative=bool(case.get("allow_negative")),
        asset=case.get("asset_opt"),
        prefix=case.get("prefix"),
        extra=extra_args,
    )
    env_extra = dict(env_extra or {})
    if case["country"] == "generic":
        env_extra.update({"CURRENCY_CODE": "usd", "LONG_TERM_CAPITAL_GAINS": str(case.get("long_term_days", 365))})
    result = cli.run_rp2(case["country"], args, cwd=folder, outdir=outdir, hashseed=hashseed, env_extra=env_extra, audit_log=audit_log)
    return result, ini, ods, outdir


def cleanup(folder: str) -> None:
    shutil.rmtree(folder, ignore_errors=True)


_FRAME_RE = re.compile(r'File "[^"]*/src/rp2/([^"]+)", line (\d+), in (\S+)')


def crash_bucket(text: str) -> Optional[str]:
    """'ExceptionType@file:function' of a traceback printed by rp2 (innermost frame inside the package), else None."""
    if "Traceback (most recent call last)" not in text:
        return None
    frames = _FRAME_RE.findall(text)
    exc = None
    for line in reversed(text.strip().splitlines()):
        match = re.match(r"^([A-Za-z_][\w\.]*(?:Error|Exception|Exit|Interrupt|Warning|KeyError|StopIteration))\b", line.strip())
        if match:
            exc = match.group(1).split(".")[-1]
            break
    where = f"{frames[-1][0]}:{frames[-1][2]}" if frames else "?"
    return f"{exc or 'Exception'}@{where}"


def volume_classes(case: Dict[str, Any]) -> set:
    """Evidence classes for the 'volume' tail of the generator (gen._bulk_tail): sheets beyond the templates' spare rows."""
    classes = set()
    expense_rows = 0
    for spec in case["assets"].values():
        rows = [r for _, table_rows in spec["tables"] for r in table_rows]
        if len(rows) >= 60:
            classes.add("volume_asset_60plus_rows")
        expense_rows += sum(1 for r in rows if (r["table"] == "out" and r.get("type") in ("fee", "lost")) or (r["table"] == "intra" and r.get("sent") != r.get("received")))
        expense_rows += sum(1 for r in rows if r["table"] == "in" and r.get("crypto_fee") not in (None, "0"))
    if expense_rows > 95:
        classes.add("investment_expense_rows_over_95")
    return classes


def aborted_in(text: str, file_fragment: str) -> Optional[str]:
    """Crash bucket of a run that died with a traceback passing through the given source file (e.g. a report generator), else
    None.  Used by the report checks: a generator that aborts shows none of the values the property says it shows."""
    if "Traceback (most recent call last)" not in text:
        return None
    if not any(file_fragment in frame[0] for frame in _FRAME_RE.findall(text)):
        return None
    return crash_bucket(text)


def schedule_of(case: Dict[str, Any]) -> Dict[str, str]:
    """The year->method map a run of this case uses."""
    if case.get("schedule"):
        return dict(case["schedule"])
    return {"1970": case.get("method") or "fifo"}


def minimize(case: Dict[str, Any], still_fails: Callable[[Dict[str, Any]], bool], budget: int = 40) -> Dict[str, Any]:
    """Greedy bounded reduction of a file case: drop assets, drop options, drop rows (from the end), keeping the failure."""
    best = copy.deepcopy(case)
    spent = 0

    def attempt(candidate: Dict[str, Any]) -> bool:
        nonlocal best, spent
        if spent >= budget:
            return False
        spent += 1
        try:
            if still_fails(copy.deepcopy(candidate)):
                best = candidate
                return True
        except Exception:  # pylint: disable=broad-except
            return False
        return False

    # 1. assets
    for asset in list(best["assets"]):
        if len(best["assets"]) > 1 and asset != best.get("asset_opt"):
            cand = copy.deepcopy(best)
            del cand["assets"][asset]
            attempt(cand)
    # 2. options
    for key in ("lang", "from", "to", "schedule", "method", "asset_opt", "prefix"):
        if best.get(key) is not None:
            cand = copy.deepcopy(best)
            cand[key] = None
            if key == "lang" and cand["country"] == "jp":
                continue
            attempt(cand)
    if best.get("allow_negative"):
        cand = copy.deepcopy(best)
        cand["allow_negative"] = False
        attempt(cand)
    # 3. rows: try dropping whole non-IN tables, then halves of rows from the end (later rows never fund earlier ones)
    for asset in list(best["assets"]):
        for idx in range(len(best["assets"][asset]["tables"]) - 1, -1, -1):
            table, rows = best["assets"][asset]["tables"][idx]
            if table != "in" and rows:
                cand = copy.deepcopy(best)
                cand["assets"][asset]["tables"][idx][1] = []
                attempt(cand)
    for asset in list(best["assets"]):
        changed = True
        while changed and spent < budget:
            changed = False
            flat = [(ti, ri, r) for ti, (_, rows) in enumerate(best["assets"][asset]["tables"]) for ri, r in enumerate(rows)]
            if len(flat) <= 1:
                break
            latest = max(flat, key=lambda x: model.parse_ts(x[2]["ts"])[0])
            if best["assets"][asset]["tables"][latest[0]][0] == "in" and sum(1 for ti, _, _ in flat if best["assets"][asset]["tables"][ti][0] == "in") <= 1:
                break
            cand = copy.deepcopy(best)
            del cand["assets"][asset]["tables"][latest[0]][1][latest[1]]
            if attempt(cand):
                changed = True
    return best
