"""Hypothesis strategies that *construct* valid RP2 histories (no filtering).

All amounts are handled as integers in units of 1e-11 (R1: <= 11 decimals), prices as integers in units of
1e-11 as well, instants as integer UTC microseconds.  The composite keeps per-account running balances
while drawing, so that disposals and transfers are sized from what is actually held (R12).

A generated "case" is a plain JSON-serialisable dictionary (see rp2v.model for the row format).
"""
from __future__ import annotations

from dataclasses import dataclass, field
from datetime import date
from typing import Any, Dict, List, Optional, Tuple

from hypothesis import strategies as st

from . import model

UNIT = 10**11  # amount / price units per 1
US = 1_000_000
DAY_US = 86_400 * US

EXCHANGE_NAMES = ["Coinbase", "Coinbase Pro", "Kraken", "BlockFi", "Ledger-X.1"]
HOLDER_NAMES = ["Bob", "Alice", "Mary Ann"]
ASSET_NAMES = ["BTC", "ETH", "B1", "XLM", "DOT.x", "ADA_2"]
OFFSETS_MIN = [0, 0, 0, -12 * 60, -8 * 60, -5 * 60, -(3 * 60 + 30), -(9 * 60 + 30), 60, 5 * 60 + 30, 9 * 60, 12 * 60 + 45, 14 * 60]


def units_to_str(units: int) -> str:
    """Integer units of 1e-11 -> shortest decimal string."""
    sign = "-" if units < 0 else ""
    units = abs(units)
    whole, frac = divmod(units, UNIT)
    if frac == 0:
        return f"{sign}{whole}"
    return f"{sign}{whole}.{frac:011d}".rstrip("0")


def str_to_units(text: str) -> int:
    value = model.F(text) * UNIT
    if value.denominator != 1:
        raise ValueError(f"more than 11 decimals: {text}")
    return int(value)


@dataclass
class GenCfg:
    min_steps: int = 2
    max_steps: int = 14
    max_exchanges: int = 2
    max_holders: int = 2
    tie_prob: float = 0.25
    in_types: Tuple[str, ...] = model.IN_TYPES
    out_types: Tuple[str, ...] = model.OUT_TYPES
    intra: bool = True
    wide: bool = False  # C04 numerics: 1e-11 .. 1e9, prices 1e-8 .. 1e7
    fiat_columns: bool = False  # exchange-supplied optional fiat columns
    date_monotone: bool = True  # R3
    mixed_offsets: bool = True
    start_years: Tuple[int, int] = (2015, 2022)
    long_gaps: bool = True  # year-scale gaps (holding periods, multi-year)
    crypto_fee_in: bool = True  # emit parse-style (IN + artificial FEE out) pairs
    allow_zero_price_free_transfer: bool = True
    force_type_cycle: bool = False  # C03: cycle palettes so that every type occurs
    asset: str = "B1"
    first_row: int = 3
    ops: Tuple[str, ...] = ("in", "in", "out", "out", "out", "intra")  # operation mix once something is held
    bulk_prob: float = 0.0  # probability of a "volume" tail: one funding lot + 60..180 small rows of a few types (template/sheet sizing)
    subsecond_weight: int = 0  # extra weight (out of 12 + n) for "the next instant is less than a second later"
    big_lots: int = 0  # n in 10 acquisitions are 1 .. 3000 whole units (dust-relative-to-lot effects); True counts as 1
    fiat_only_out_fee: bool = False  # now and then a disposal whose fee was paid in fiat: crypto_fee 0, fiat_fee supplied
    zero_received_transfers: bool = True  # now and then a transfer whose whole amount is its fee (received == 0)
    shared_uid_prob: float = 0.0  # probability that a row reuses the previous row's unique id (one on-chain hash entered as several rows)


ROUND_AMOUNTS = [1, 2, 3, 5, 10, 100]


@st.composite
def amount_units(draw: Any, wide: bool = False, big: int = 0) -> int:
    kind = draw(st.integers(0, 9))
    if big and kind >= 10 - int(big) and not wide:
        # a large holding (still inside R1: exact through a spreadsheet double): a 1e-11 sliver of it is below rp2's 13-decimal
        # resolution as a *percentage* of the lot
        return draw(st.integers(1, 3000)) * UNIT
    if kind <= 3:
        base = draw(st.sampled_from(ROUND_AMOUNTS))
        div = draw(st.sampled_from([1, 1, 2, 4, 10, 100, 1000]))
        return max(1, base * UNIT // div)
    if kind <= 6:
        return draw(st.integers(1, 20_000)) * (UNIT // 1000)  # 0.001 .. 20 with 3 decimals
    if not wide:
        return draw(st.integers(1, 50 * UNIT))  # arbitrary 11-decimal value < 50
    sub = draw(st.integers(0, 3))
    if sub == 0:
        return draw(st.integers(1, 1000))  # 1e-11 .. 1e-8
    if sub == 1:
        return draw(st.integers(10**8 * UNIT, 10**9 * UNIT))  # huge
    exp = draw(st.integers(0, 20))
    return draw(st.integers(10**exp, 10 ** (exp + 1) - 1)) if exp < 20 else 10**9 * UNIT


@st.composite
def price_units(draw: Any, palette: List[int], wide: bool = False) -> int:
    kind = draw(st.integers(0, 9))
    if kind <= 4 and palette:
        return draw(st.sampled_from(palette))
    if not wide:
        if kind <= 7:
            return draw(st.integers(1, 100_000_00)) * (UNIT // 100)  # 0.01 .. 100000.00
        return draw(st.integers(UNIT // 1000, 1000 * UNIT))
    exp = draw(st.integers(3, 17))  # 1e-8 .. 1e7 (units of 1e-11: 1e3 .. 1e18)
    hi = min(10 ** (exp + 1) - 1, 10**18)
    return draw(st.integers(10**exp, hi))


def _year_start_us(year: int) -> int:
    return (date(year, 1, 1) - date(1970, 1, 1)).days * DAY_US


class _State:
    def __init__(self) -> None:
        self.rows: List[Dict[str, Any]] = []
        self.balances: Dict[Tuple[str, str], int] = {}
        # balance available for debits at the current instant, ignoring same-instant transfer credits
        self.avail: Dict[Tuple[str, str], int] = {}
        self.lot_amounts: List[int] = []
        self.lot_instants: List[int] = []
        self.now_us: int = 0
        self.now_off: int = 0
        self.next_row: int = 3
        self.next_art: int = -1
        self.n_ties: int = 0

    def new_instant(self) -> None:
        self.avail = dict(self.balances)

    def credit_in(self, acc: Tuple[str, str], units: int) -> None:
        self.balances[acc] = self.balances.get(acc, 0) + units
        self.avail[acc] = self.avail.get(acc, 0) + units

    def credit_transfer(self, acc: Tuple[str, str], units: int) -> None:
        self.balances[acc] = self.balances.get(acc, 0) + units
        self.avail.setdefault(acc, 0)

    def debit(self, acc: Tuple[str, str], units: int) -> None:
        self.balances[acc] = self.balances.get(acc, 0) - units
        self.avail[acc] = self.avail.get(acc, 0) - units


def _draw_instant(draw: Any, cfg: GenCfg, state: _State, first: bool) -> None:
    """Advance the clock (or keep it, for a tie) and choose the row's UTC offset."""
    if first:
        year = draw(st.integers(*cfg.start_years))
        kind = draw(st.integers(0, 5))
        if kind == 0:
            us = _year_start_us(year) + draw(st.sampled_from([-1 * US, 0, US, 3600 * US, -3600 * US]))
        elif kind == 1:
            # leap-day neighbourhood
            ly = draw(st.sampled_from([2016, 2020]))
            us = (date(ly, 2, 28) - date(1970, 1, 1)).days * DAY_US + draw(st.integers(0, 2 * DAY_US))
        else:
            us = _year_start_us(year) + draw(st.integers(0, 365 * 24 * 3600)) * US
        if draw(st.integers(0, 7)) == 0:
            us += draw(st.integers(1, 999_999))
        state.now_us = us
        state.now_off = draw(st.sampled_from(OFFSETS_MIN)) if cfg.mixed_offsets else 0
        state.new_instant()
        return
    tie = draw(st.floats(0, 1)) < cfg.tie_prob
    if tie:
        state.n_ties += 1
        # same instant; same offset keeps a single local date per instant (R3)
        if cfg.mixed_offsets and not cfg.date_monotone and draw(st.booleans()):
            state.now_off = draw(st.sampled_from(OFFSETS_MIN))
        return
    kind = draw(st.integers(0, 11 + cfg.subsecond_weight))
    prev_us, prev_off = state.now_us, state.now_off
    if kind > 11:
        kind = 7
    if kind <= 1:
        delta = draw(st.integers(1, 120)) * US
    elif kind <= 3:
        delta = draw(st.integers(1, 48 * 3600)) * US
    elif kind <= 6:
        delta = draw(st.integers(1, 120)) * DAY_US + draw(st.integers(0, DAY_US - 1))
    elif kind == 7:
        delta = draw(st.integers(1, 999_999))  # sub-second
    elif kind == 8 and cfg.long_gaps:
        # land around the next year boundary (local year != UTC year cases come from the offsets)
        year = model.local_date(prev_us, 0).year + 1
        target = _year_start_us(year) + draw(st.sampled_from([-14 * 3600 * US, -1 * US, 0, US, 12 * 3600 * US]))
        delta = max(1, target - prev_us)
    elif kind == 9 and cfg.long_gaps and state.lot_instants:
        # land around "some lot + 365 days" (holding-period threshold)
        lot_us = draw(st.sampled_from(state.lot_instants))
        target = lot_us + 365 * DAY_US + draw(st.sampled_from([-US, -1, 0, 1, US, DAY_US, -3 * 3600 * US, 3 * 3600 * US, -10 * 3600 * US, 10 * 3600 * US, -20 * 3600 * US, 20 * 3600 * US]))
        delta = max(1, target - prev_us)
    elif cfg.long_gaps:
        delta = draw(st.integers(150, 800)) * DAY_US
    else:
        delta = draw(st.integers(1, 30)) * DAY_US
    state.now_us = prev_us + delta
    off = draw(st.sampled_from(OFFSETS_MIN)) if cfg.mixed_offsets else 0
    if cfg.date_monotone:
        prev_day = model.local_date(prev_us, prev_off)
        if model.local_date(state.now_us, off) < prev_day:
            off = prev_off
    state.now_off = off
    state.new_instant()


def _size_debit(draw: Any, state: _State, available: int) -> int:
    """Choose how much of `available` units to take: everything, a lot-sized amount, a sliver, dust..."""
    kind = draw(st.integers(0, 9))
    if kind <= 2 or available == 1:
        return available
    if kind <= 4:
        candidates = [a for a in state.lot_amounts if a <= available]
        if candidates:
            pick = draw(st.sampled_from(candidates))
            if kind == 4 and len(candidates) > 1:
                other = draw(st.sampled_from(candidates))
                if pick + other <= available:
                    pick += other
            if pick + 1 <= available and draw(st.integers(0, 3)) == 0:
                pick += 1  # cross the lot boundary by one unit of 1e-11: the next lot gives a sliver only
            return pick
        return available
    if kind == 5:
        return max(1, available // 2)
    if kind == 6:
        return 1 if draw(st.booleans()) else max(1, available - 1)
    if kind == 7:
        return max(1, available // draw(st.sampled_from([3, 7, 10, 1000])))
    return draw(st.integers(1, available))


@st.composite
def history(draw: Any, cfg: GenCfg = GenCfg()) -> Dict[str, Any]:
    """One single-asset history, valid by construction: no account ever goes negative (R12)."""
    n_ex = draw(st.integers(1, cfg.max_exchanges))
    n_ho = draw(st.integers(1, cfg.max_holders))
    exchanges = EXCHANGE_NAMES[:n_ex]
    holders = HOLDER_NAMES[:n_ho]
    accounts = [(e, h) for e in exchanges for h in holders]
    palette = [draw(price_units(palette=[], wide=cfg.wide)) for _ in range(draw(st.integers(1, 3)))]
    n_steps = draw(st.integers(cfg.min_steps, cfg.max_steps))
    state = _State()
    state.next_row = cfg.first_row
    in_cycle = draw(st.integers(0, len(cfg.in_types) - 1)) if cfg.force_type_cycle else 0
    out_cycle = draw(st.integers(0, len(cfg.out_types) - 1)) if cfg.force_type_cycle else 0

    for step in range(n_steps):
        _draw_instant(draw, cfg, state, first=(step == 0))
        ts = model.fmt_ts(state.now_us, state.now_off)
        funded = [a for a in accounts if state.avail.get(a, 0) > 0]
        # operation choice: acquisitions when nothing is held, otherwise a mix
        if not funded:
            op = "in"
        else:
            op = draw(st.sampled_from([o for o in cfg.ops if cfg.intra or o != "intra"]))
        price = draw(price_units(palette=palette, wide=cfg.wide))
        uid = f"u{len(state.rows) + 1}"
        if cfg.shared_uid_prob and state.rows and draw(st.integers(0, 999)) < int(cfg.shared_uid_prob * 1000):
            uid = state.rows[-1]["uid"]
        if op == "in":
            acc = draw(st.sampled_from(accounts))
            if cfg.force_type_cycle:
                ttype = cfg.in_types[in_cycle % len(cfg.in_types)]
                in_cycle += 1
            else:
                ttype = draw(st.sampled_from(cfg.in_types))
            units = draw(amount_units(wide=cfg.wide, big=cfg.big_lots))
            row: Dict[str, Any] = {
                "table": "in",
                "row": state.next_row,
                "ts": ts,
                "ex": acc[0],
                "ho": acc[1],
                "type": ttype,
                "price": units_to_str(price),
                "crypto_in": units_to_str(units),
                "uid": uid,
            }
            state.next_row += 1
            fee_kind = draw(st.integers(0, 5))
            fiat_value = model.F(units_to_str(units)) * model.F(units_to_str(price))
            if fee_kind == 0:
                # fiat fee only (R5)
                row["fiat_fee"] = units_to_str(draw(st.integers(1, 50 * 100)) * (UNIT // 100))
            elif fee_kind == 1 and cfg.crypto_fee_in and units > 1:
                # crypto fee: represented post-parse as IN (fee value kept in cost) + artificial FEE out
                fee_units = max(1, min(units - 1, draw(st.sampled_from([1, units // 100 or 1, units // 10 or 1]))))
                fee_fiat = model.F(units_to_str(fee_units)) * model.F(units_to_str(price))
                # (parse_ods also passes fiat_in_no_fee / fiat_in_with_fee explicitly, with the values the defaults give;
                # they are left to the defaults here so that dust fiat values below RP2's 13-decimal resolution are not
                # "explicitly supplied zero values" -- see DESIGN.md R13)
                row["fiat_fee"] = _frac_to_str(fee_fiat)
                row["crypto_fee_split"] = units_to_str(fee_units)
            if cfg.fiat_columns and "crypto_fee_split" not in row:
                fc = draw(st.integers(0, 3))
                if fc in (1, 3):
                    # exchange-supplied value, free to disagree with amount x price
                    row["fiat_in_no_fee"] = _supplied(draw, fiat_value)
                if fc in (2, 3):
                    base = model.F(row["fiat_in_no_fee"]) if "fiat_in_no_fee" in row else fiat_value
                    row["fiat_in_with_fee"] = _supplied(draw, base + model.F(row.get("fiat_fee", "0")))
            state.rows.append(row)
            state.credit_in(acc, units)
            state.lot_amounts.append(units)
            state.lot_instants.append(state.now_us)
            if "crypto_fee_split" in row:
                fee_units = str_to_units(row.pop("crypto_fee_split"))
                art = {
                    "table": "out",
                    "row": state.next_art,
                    "ts": ts,
                    "ex": acc[0],
                    "ho": acc[1],
                    "type": "fee",
                    "price": units_to_str(price),
                    "out": "0",
                    "fee": units_to_str(fee_units),
                    "uid": uid,
                    "artificial_for": row["row"],
                }
                state.next_art -= 1
                state.rows.append(art)
                state.debit(acc, fee_units)
        elif op == "out":
            acc = draw(st.sampled_from(funded))
            take = _size_debit(draw, state, state.avail[acc])
            if cfg.force_type_cycle:
                ttype = cfg.out_types[out_cycle % len(cfg.out_types)]
                out_cycle += 1
            else:
                ttype = draw(st.sampled_from(cfg.out_types))
            row = {"table": "out", "row": state.next_row, "ts": ts, "ex": acc[0], "ho": acc[1], "type": ttype, "price": units_to_str(price), "uid": uid}
            state.next_row += 1
            if ttype == "fee":
                row["out"] = "0"
                row["fee"] = units_to_str(take)
                if draw(st.integers(0, 5)) == 0:
                    row["price"] = "0"  # FEE rows do not require a price (R6)
            else:
                fee_units = 0
                if take > 1 and draw(st.integers(0, 2)) == 0:
                    fee_units = max(1, min(take - 1, draw(st.sampled_from([1, take // 100 or 1, take // 10 or 1]))))
                row["out"] = units_to_str(take - fee_units)
                row["fee"] = units_to_str(fee_units)
            if cfg.fiat_only_out_fee and ttype != "fee" and row["fee"] == "0" and draw(st.integers(0, 3)) == 0:
                row["fiat_fee"] = units_to_str(draw(st.integers(1, 50 * 100)) * (UNIT // 100))
            if cfg.fiat_columns:
                fc = draw(st.integers(0, 7))
                out_f = model.F(row["out"])
                fee_f = model.F(row["fee"])
                price_f = model.F(row["price"])
                if fc & 1 and ttype != "fee":
                    row["fiat_out_no_fee"] = _supplied(draw, out_f * price_f)
                if fc & 2 and fee_f > 0:
                    row["fiat_fee"] = _supplied(draw, fee_f * price_f)
                if fc & 4:
                    row["out_with_fee"] = _frac_to_str(out_f + fee_f)  # R4: consistent when present
            state.rows.append(row)
            state.debit(acc, take)
        else:  # intra
            acc = draw(st.sampled_from(funded))
            to_acc = draw(st.sampled_from(accounts))
            take = _size_debit(draw, state, state.avail[acc])
            fee_units = 0
            if take > 1 and draw(st.integers(0, 1)) == 0:
                fee_units = max(1, min(take - 1, draw(st.sampled_from([1, take // 1000 or 1, take // 50 or 1]))))
            elif cfg.zero_received_transfers and draw(st.integers(0, 7)) == 0:
                fee_units = take  # a transfer entirely eaten by its fee (dust sweep): crypto_received is exactly 0
            row = {
                "table": "intra",
                "row": state.next_row,
                "ts": ts,
                "from_ex": acc[0],
                "from_ho": acc[1],
                "to_ex": to_acc[0],
                "to_ho": to_acc[1],
                "price": units_to_str(price),
                "sent": units_to_str(take),
                "received": units_to_str(take - fee_units),
                "uid": uid,
            }
            if fee_units == 0 and cfg.allow_zero_price_free_transfer and draw(st.integers(0, 2)) == 0:
                row["price"] = "0"
            state.next_row += 1
            state.rows.append(row)
            state.debit(acc, take)
            state.credit_transfer(to_acc, take - fee_units)

    if cfg.bulk_prob and draw(st.integers(0, 999)) < int(cfg.bulk_prob * 1000):
        _bulk_tail(draw, cfg, state, accounts)

    return {
        "asset": cfg.asset,
        "exchanges": exchanges,
        "holders": holders,
        "rows": state.rows,
    }


BULK_MIXES: Tuple[Tuple[str, ...], ...] = (
    ("fee", "lost", "move"),
    ("fee", "lost", "move"),
    ("fee", "move"),
    ("lost", "fee"),
    ("sell",),
    ("sell", "gift", "donate", "fee", "lost", "ostaking", "move"),
    ("interest", "mining", "airdrop"),
    ("wages", "income", "hardfork", "staking", "sell"),
)


def _bulk_tail(draw: Any, cfg: GenCfg, state: _State, accounts: List[Tuple[str, str]]) -> None:
    """Volume block appended after the drawn steps: one BUY that funds it, then n small rows whose types cycle through a
    drawn mix ('move' = transfer with fee, 'ostaking' = OUT/STAKING, earn types = IN rows, the rest = OUT rows).
    Few random choices, many rows: reaches report-template capacities (e.g. > 95 rows on one tax-report sheet) that
    step-by-step drawing cannot within Hypothesis' entropy budget."""
    n = draw(st.integers(60, 180))
    def usable(token: str) -> bool:
        if token == "move":
            return cfg.intra and len(accounts) > 1
        if token == "ostaking":
            return "staking" in cfg.out_types
        if token in model.EARN_TYPES:
            return token in cfg.in_types
        return token in cfg.out_types

    mix = [t for t in draw(st.sampled_from(BULK_MIXES)) if usable(t)]
    if not mix:
        mix = [cfg.out_types[0]]
    spacing = draw(st.sampled_from([3600 * US, 7 * 3600 * US, DAY_US, 3 * DAY_US]))
    acc = draw(st.sampled_from(accounts))
    other = [a for a in accounts if a != acc][0] if len(accounts) > 1 else acc
    price = draw(st.integers(1, 5000)) * UNIT
    piece = draw(st.sampled_from([UNIT // 1000, UNIT // 100, 25 * UNIT // 1000]))
    off = state.now_off
    state.now_us += draw(st.integers(1, 40)) * DAY_US
    state.new_instant()
    funding = n * 8 * piece
    state.rows.append({"table": "in", "row": state.next_row, "ts": model.fmt_ts(state.now_us, off), "ex": acc[0], "ho": acc[1], "type": "buy" if "buy" in cfg.in_types else cfg.in_types[0], "price": units_to_str(price), "crypto_in": units_to_str(funding), "uid": f"u{len(state.rows) + 1}"})
    state.next_row += 1
    state.credit_in(acc, funding)
    state.lot_amounts.append(funding)
    state.lot_instants.append(state.now_us)
    for i in range(n):
        state.now_us += spacing
        state.new_instant()
        ts = model.fmt_ts(state.now_us, off)
        kind = mix[i % len(mix)]
        amount = piece * (1 + i % 7)
        uid = f"u{len(state.rows) + 1}"
        row_price = units_to_str(price + (i % 5) * UNIT)
        if kind == "move":
            fee = max(1, amount // 10)
            state.rows.append({"table": "intra", "row": state.next_row, "ts": ts, "from_ex": acc[0], "from_ho": acc[1], "to_ex": other[0], "to_ho": other[1], "price": row_price, "sent": units_to_str(amount), "received": units_to_str(amount - fee), "uid": uid})
            state.debit(acc, amount)
            state.credit_transfer(other, amount - fee)
        elif kind in model.EARN_TYPES:
            state.rows.append({"table": "in", "row": state.next_row, "ts": ts, "ex": acc[0], "ho": acc[1], "type": kind, "price": row_price, "crypto_in": units_to_str(amount), "uid": uid})
            state.credit_in(acc, amount)
            state.lot_amounts.append(amount)
            state.lot_instants.append(state.now_us)
        elif kind == "fee":
            state.rows.append({"table": "out", "row": state.next_row, "ts": ts, "ex": acc[0], "ho": acc[1], "type": "fee", "price": row_price, "out": "0", "fee": units_to_str(amount), "uid": uid})
            state.debit(acc, amount)
        else:
            state.rows.append({"table": "out", "row": state.next_row, "ts": ts, "ex": acc[0], "ho": acc[1], "type": "staking" if kind == "ostaking" else kind, "price": row_price, "out": units_to_str(amount), "fee": "0", "uid": uid})
            state.debit(acc, amount)
        state.next_row += 1


def _frac_to_str(value: Any) -> str:
    """Exact decimal string of a Fraction with a power-of-ten denominator."""
    frac = model.F(value)
    sign = "-" if frac < 0 else ""
    frac = abs(frac)
    scale = 0
    den = frac.denominator
    while den % 10 == 0:
        den //= 10
        scale += 1
    # denominator must divide a power of ten
    num = frac.numerator
    d = frac.denominator
    k = 0
    while (10**k) % d != 0:
        k += 1
        if k > 60:
            raise ValueError(f"not a finite decimal: {value}")
    scaled = num * (10**k // d)
    text = str(scaled).rjust(k + 1, "0")
    whole, dec = (text[:-k], text[-k:]) if k else (text, "")
    dec = dec.rstrip("0")
    return f"{sign}{whole}.{dec}" if dec else f"{sign}{whole}"


def _supplied(draw: Any, value: Any) -> str:
    """An exchange-supplied fiat value: positive, 2..8 decimals, near or far from amount x price."""
    frac = model.F(value)
    mode = draw(st.integers(0, 3))
    cents = int(frac * 100)
    if mode == 0:
        cents = max(1, cents)  # rounded to cents
    elif mode == 1:
        cents = max(1, cents + draw(st.integers(-50, 50)))
    elif mode == 2:
        cents = max(1, int(frac * draw(st.sampled_from([90, 99, 101, 110]))))  # ~ +-10 %
    else:
        cents = draw(st.integers(1, 10**9))
    return _frac_to_str(model.F(cents) / 100)


# --------------------------------------------------------------------------------------------------
# schedules, windows


@st.composite
def schedule(draw: Any, txs: List[model.Tx], methods: Tuple[str, ...] = model.METHODS, multi_prob: float = 0.4) -> Dict[str, str]:
    """{year: method}: a single method from 1970, or 2-4 breakpoints inside the years spanned (R10)."""
    years = sorted({t.year for t in txs}) or [2020]
    first = years[0]
    if len(methods) == 1 or draw(st.floats(0, 1)) >= multi_prob:
        return {"1970": draw(st.sampled_from(methods))}
    n_break = draw(st.integers(2, 4))
    first_key = draw(st.sampled_from([1970, first - 1, first]))
    keys = {max(1970, first_key)}
    span = list(range(first, years[-1] + 2))
    for _ in range(n_break - 1):
        keys.add(draw(st.sampled_from(span)))
    return {str(k): draw(st.sampled_from(methods)) for k in sorted(keys)}


@st.composite
def window_date(draw: Any, txs: List[model.Tx]) -> Optional[str]:
    """A calendar date placed on / one day before / after / between transaction dates, year edges, etc."""
    from datetime import timedelta

    days = sorted({t.day for t in txs})
    if not days:
        return None
    kind = draw(st.integers(0, 7))
    base = draw(st.sampled_from(days))
    if kind <= 1:
        pick = base
    elif kind == 2:
        pick = base - timedelta(days=1)
    elif kind == 3:
        pick = base + timedelta(days=1)
    elif kind == 4:
        pick = date(base.year, 1, 1) if draw(st.booleans()) else date(base.year, 12, 31)
    elif kind == 5:
        pick = date(base.year, 6, 30)
    elif kind == 6:
        pick = days[0] - timedelta(days=draw(st.integers(1, 400))) if draw(st.booleans()) else days[-1] + timedelta(days=draw(st.integers(1, 400)))
    else:
        lo, hi = days[0].toordinal(), days[-1].toordinal()
        pick = date.fromordinal(draw(st.integers(lo, hi)))
    if pick < date(1970, 1, 2):
        pick = date(1970, 1, 2)
    return pick.isoformat()
