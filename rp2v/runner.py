"""Shared runner: sharded Hypothesis search, case accounting, known findings, replay, evidence.

A check module (rp2v/checks/cNN.py) provides:
    ID, LEVEL ("exploration" | "fault_enumeration"), RULE (str), ASSUMPTIONS (list of str)
    budget(tier) -> dict(shards=int, examples=int [, shrink=bool])
    strategy(tier) -> hypothesis strategy producing a JSON-serialisable case
    evaluate(case) -> Outcome
and optionally:
    extra(tier, seed) -> dict merged into the result (e.g. an exhaustive grid); may add violations
    machine(tier)  -> RuleBasedStateMachine subclass factory (stateful checks)

Exit codes: 0 held / only known findings; 1 violation (with VIOLATION line); 2 harness error.
"""
from __future__ import annotations

import argparse
import hashlib
import importlib
import json
import os
import shutil
import sys
import tempfile
import time
import traceback
from concurrent.futures import ProcessPoolExecutor, as_completed
from dataclasses import dataclass, field
from fractions import Fraction
from typing import Any, Callable, Dict, List, Optional, Set, Tuple

VERIF_DIR = os.path.dirname(os.path.dirname(os.path.abspath(__file__)))
# (the two overrides are used by tools/mutants.py only, so that sensitivity runs never touch the committed evidence)
EVIDENCE_DIR = os.environ.get("RP2V_EVIDENCE_DIR") or os.path.join(VERIF_DIR, "evidence")
REPLAY_DIR = os.environ.get("RP2V_REPLAY_DIR") or os.path.join(VERIF_DIR, "replays")
REGRESS_DIR = os.path.join(VERIF_DIR, "regress")
KNOWN_FINDINGS = os.path.join(VERIF_DIR, "known_findings.json")


class HarnessError(Exception):
    """A failure of the checking machinery itself (exit 2), never a VIOLATION."""


class Violation(Exception):
    def __init__(self, clause: str, detail: str, case: Any) -> None:
        super().__init__(f"{clause}: {detail}")
        self.clause = clause
        self.detail = detail
        self.case = case


@dataclass
class Outcome:
    violations: List[Tuple[str, str]] = field(default_factory=list)  # (clause, detail)
    classes: Set[str] = field(default_factory=set)
    nontrivial: bool = False
    skipped: Optional[str] = None  # reason the case was not judged (ambiguous, ...)
    metrics: Dict[str, Any] = field(default_factory=dict)

    def fail(self, clause: str, detail: str) -> None:
        self.violations.append((clause, detail))


def jsonable(value: Any) -> Any:
    if isinstance(value, Fraction):
        return str(value)
    if isinstance(value, dict):
        return {str(k): jsonable(v) for k, v in value.items()}
    if isinstance(value, (list, tuple)):
        return [jsonable(v) for v in value]
    if isinstance(value, set):
        return sorted(jsonable(v) for v in value)
    return value


def case_hash(case: Any) -> int:
    text = json.dumps(jsonable(case), sort_keys=True, separators=(",", ":"))
    return int.from_bytes(hashlib.sha1(text.encode()).digest()[:8], "big")


def derive_seed(seed: int, check_id: str, shard: int) -> int:
    digest = hashlib.sha256(f"{seed}/{check_id}/{shard}".encode()).digest()
    return int.from_bytes(digest[:8], "big")


_SCRATCH: Optional[str] = None
_SCRATCH_PID: int = -1


def enter_scratch() -> str:
    """Create a scratch dir and chdir into it, so that rp2's ./log never lands in /repo or /verif.
    A forked child never reuses (or removes) the scratch directory of its parent."""
    global _SCRATCH, _SCRATCH_PID
    if _SCRATCH is None or _SCRATCH_PID != os.getpid():
        _SCRATCH = tempfile.mkdtemp(prefix="rp2v_")
        _SCRATCH_PID = os.getpid()
        os.chdir(_SCRATCH)
    return _SCRATCH


def leave_scratch() -> None:
    global _SCRATCH
    if _SCRATCH is not None and _SCRATCH_PID == os.getpid():
        os.chdir(VERIF_DIR)
        shutil.rmtree(_SCRATCH, ignore_errors=True)
        _SCRATCH = None


def load_known() -> List[Dict[str, Any]]:
    if not os.path.exists(KNOWN_FINDINGS):
        return []
    with open(KNOWN_FINDINGS, encoding="utf-8") as handle:
        return json.load(handle).get("findings", [])


def known_for(check_id: str) -> Dict[str, Dict[str, Any]]:
    """Findings of status 'known' for this property, by signature id.  'fixed' entries suppress nothing."""
    return {f["signature"]: f for f in load_known() if f.get("status") == "known" and check_id in f.get("properties", [f.get("property")])}


def match_known(mod: Any, case: Any, clause: str, detail: str, known: Dict[str, Dict[str, Any]]) -> Optional[str]:
    """Signature id of the known finding that explains this violation, if any."""
    if not known or not hasattr(mod, "known_signature"):
        return None
    sig = mod.known_signature(case, clause, detail)
    return sig if sig in known else None


# --------------------------------------------------------------------------------------------------
# shard worker


def _shard_worker(check_id: str, tier: str, seed: int, shard: int, examples: int, shrink: bool, deadline_s: float, machine_examples: int = 0, machine_steps: int = 14, examples2: int = 0) -> Dict[str, Any]:
    os.environ.setdefault("PYTHONHASHSEED", "0")
    result: Dict[str, Any] = {
        "shard": shard,
        "evaluations": 0,
        "nontrivial_hashes": [],
        "classes": {},
        "skipped": {},
        "samples": [],
        "violation": None,
        "known_hits": {},
        "error": None,
        "budget_exhausted": False,
        "metrics": {},
    }
    try:
        enter_scratch()
        import hypothesis
        from hypothesis import HealthCheck, Phase, given, settings
        from hypothesis import seed as hseed

        mod = importlib.import_module(f"rp2v.checks.{check_id.lower()}")
        known = known_for(check_id)
        hashes: Set[int] = set()
        sample_classes: Set[str] = set()
        state = {"failed": False, "failed_at": 0.0}
        failing: Set[int] = set()
        shrink_cap_s = 15.0 if tier == "quick" else 90.0
        start = time.time()

        def record(case: Any, out: Outcome) -> None:
            if state["failed"]:
                return  # shrinking / replay phase: do not inflate the counters
            result["evaluations"] += 1
            for cls in out.classes:
                result["classes"][cls] = result["classes"].get(cls, 0) + 1
            if out.skipped:
                result["skipped"][out.skipped] = result["skipped"].get(out.skipped, 0) + 1
            for key, value in out.metrics.items():
                if isinstance(value, (int, float, Fraction)):
                    prev = result["metrics"].get(key)
                    if key.startswith("max_"):
                        result["metrics"][key] = value if prev is None else max(prev, value)
                    else:
                        result["metrics"][key] = (prev or 0) + value
            if out.nontrivial:
                hashes.add(case_hash(case))
                sig = ",".join(sorted(out.classes))
                if len(result["samples"]) < 3 and sig not in sample_classes:
                    sample_classes.add(sig)
                    result["samples"].append({"classes": sorted(out.classes), "case": jsonable(case)})

        def body(case: Any) -> None:
            if time.time() - start > deadline_s and not state["failed"]:
                result["budget_exhausted"] = True
                return
            key = case_hash(case)  # before evaluate(), which may stamp the case (sheet row numbers)
            if state["failed"] and time.time() - state["failed_at"] > shrink_cap_s and key not in failing:
                return  # shrink budget used up: stop exploring smaller cases (known failing cases still fail -> no flakiness)
            out = mod.evaluate(case)
            record(case, out)
            for clause, detail in out.violations:
                sig = match_known(mod, case, clause, detail, known)
                if sig is not None:
                    if not state["failed"]:
                        result["known_hits"][sig] = result["known_hits"].get(sig, 0) + 1
                    continue
                if not state["failed"]:
                    state["failed"] = True
                    state["failed_at"] = time.time()
                    state["first_violation"] = {"clause": clause, "detail": detail, "case": jsonable(case)}
                failing.add(key)
                raise Violation(clause, detail, case)

        phases = [Phase.generate, Phase.shrink] if shrink else [Phase.generate]
        cfg = settings(
            max_examples=examples,
            database=None,
            deadline=None,
            derandomize=False,
            report_multiple_bugs=False,
            suppress_health_check=list(HealthCheck),
            phases=phases,
            print_blob=False,
        )
        derived = derive_seed(seed, check_id, shard)
        try:
            if hasattr(mod, "machine") and machine_examples > 0:
                from hypothesis.stateful import run_state_machine_as_test

                def raise_or_known(case: Any, clause: str, detail: str) -> None:
                    """Used by state machines: same known-finding / shrink-cap handling as `body`."""
                    sig = match_known(mod, case, clause, detail, known)
                    if sig is not None:
                        if not state["failed"]:
                            result["known_hits"][sig] = result["known_hits"].get(sig, 0) + 1
                        return
                    if not state["failed"]:
                        state["failed"] = True
                        state["failed_at"] = time.time()
                        state["first_violation"] = {"clause": clause, "detail": detail, "case": jsonable(case)}
                    raise Violation(clause, detail, case)

                machine_cls = mod.machine(tier, record, raise_or_known)
                mcfg = settings(cfg, max_examples=machine_examples, stateful_step_count=machine_steps)
                run_state_machine_as_test(hseed(derived)(machine_cls), settings=mcfg)
            if hasattr(mod, "strategy") and examples > 0:
                test = hseed(derived ^ 0x5A5A)(cfg(given(mod.strategy(tier))(body)))
                test()
            if hasattr(mod, "strategy2") and examples2 > 0:
                # second, slower generator of the same check (e.g. the end-to-end tier through the console entry point);
                # its cases are self-describing, mod.evaluate dispatches on them
                cfg2 = settings(cfg, max_examples=examples2, phases=[Phase.generate])
                test2 = hseed(derived ^ 0xA5A5A5)(cfg2(given(mod.strategy2(tier))(body)))
                test2()
        except Violation as vio:
            result["violation"] = {"clause": vio.clause, "detail": vio.detail, "case": jsonable(vio.case)}
        except hypothesis.errors.HypothesisException as exc:
            first = state.get("first_violation")
            if first is not None and "Flaky" in type(exc).__name__:
                # the oracle failed on real output once and the identical case passed when Hypothesis replayed it: the code under
                # test is not a function of its input (every check here is deterministic by construction) - report what was seen
                first["detail"] += " [not reproduced when the identical case was run again: the outcome is not a function of the input]"
                result["violation"] = first
            else:
                result["error"] = f"hypothesis: {type(exc).__name__}: {exc}"
        result["nontrivial_hashes"] = sorted(hashes)
    except Exception:  # pylint: disable=broad-except
        result["error"] = traceback.format_exc()
    finally:
        leave_scratch()
    result["metrics"] = jsonable(result["metrics"])
    return result


# --------------------------------------------------------------------------------------------------
# top level


def write_replay(check_id: str, payload: Dict[str, Any]) -> str:
    os.makedirs(os.path.join(REPLAY_DIR, check_id), exist_ok=True)
    text = json.dumps(jsonable(payload), indent=1, sort_keys=True)
    name = hashlib.sha1(text.encode()).hexdigest()[:16] + ".json"
    path = os.path.join(REPLAY_DIR, check_id, name)
    with open(path, "w", encoding="utf-8") as handle:
        handle.write(text + "\n")
    return path


def run_regress(mod: Any, check_id: str, known: Dict[str, Dict[str, Any]]) -> Tuple[int, List[Tuple[str, str, str]], Dict[str, int]]:
    """Evaluate every committed case under regress/<id>/; returns (count, violations, known_hits)."""
    folder = os.path.join(REGRESS_DIR, check_id)
    violations: List[Tuple[str, str, str]] = []
    known_hits: Dict[str, int] = {}
    count = 0
    if not os.path.isdir(folder):
        return 0, violations, known_hits
    for name in sorted(os.listdir(folder)):
        if not name.endswith(".json"):
            continue
        path = os.path.join(folder, name)
        with open(path, encoding="utf-8") as handle:
            payload = json.load(handle)
        case = payload["case"]
        if hasattr(mod, "replay_evaluate"):
            out = mod.replay_evaluate(case)
        else:
            out = mod.evaluate(case)
        count += 1
        for clause, detail in out.violations:
            sig = match_known(mod, case, clause, detail, known)
            if sig is not None:
                known_hits[sig] = known_hits.get(sig, 0) + 1
            else:
                violations.append((path, clause, detail))
    return count, violations, known_hits


def replay(check_id: str, path: str) -> int:
    mod = importlib.import_module(f"rp2v.checks.{check_id.lower()}")
    enter_scratch()
    try:
        with open(path, encoding="utf-8") as handle:
            payload = json.load(handle)
        case = payload["case"]
        out = mod.replay_evaluate(case) if hasattr(mod, "replay_evaluate") else mod.evaluate(case)
        known = known_for(check_id)
        status = 0
        for clause, detail in out.violations:
            sig = match_known(mod, case, clause, detail, known)
            if sig is not None:
                print(f"KNOWN-FINDING: property={check_id} {known[sig]['what']}")
                continue
            print(f"violated clause: {clause}\n  {detail}")
            print(f"VIOLATION property={check_id} replay={path}")
            status = 1
        if status == 0:
            print(f"replay {path}: property {check_id} holds on this case")
        return status
    finally:
        leave_scratch()


def main(argv: Optional[List[str]] = None) -> int:
    parser = argparse.ArgumentParser(prog="check")
    parser.add_argument("check_id")
    parser.add_argument("--tier", default=os.environ.get("VERIF_TIER") or "quick", choices=["quick", "thorough"])
    parser.add_argument("--replay", default=None)
    parser.add_argument("--examples", type=int, default=None, help="override examples per shard (debugging)")
    parser.add_argument("--shards", type=int, default=None)
    args = parser.parse_args(argv)
    check_id = args.check_id.upper()
    try:
        seed = int(os.environ.get("VERIF_SEED", "1") or "1")
    except ValueError:
        seed = 1
    os.environ.setdefault("PYTHONHASHSEED", "0")
    os.environ.setdefault("LC_ALL", "C.UTF-8")
    os.environ["PYTHONDONTWRITEBYTECODE"] = "1"
    sys.dont_write_bytecode = True
    if args.replay:
        try:
            return replay(check_id, os.path.abspath(args.replay))
        except Exception:  # pylint: disable=broad-except
            traceback.print_exc()
            return 2
    try:
        return run_check(check_id, args.tier, seed, args.examples, args.shards)
    except HarnessError as exc:
        print(f"HARNESS-ERROR property={check_id}: {exc}")
        return 2
    except Exception:  # pylint: disable=broad-except
        traceback.print_exc()
        print(f"HARNESS-ERROR property={check_id}: internal exception in the checker")
        return 2


def run_check(check_id: str, tier: str, seed: int, examples_override: Optional[int], shards_override: Optional[int]) -> int:
    start = time.time()
    mod = importlib.import_module(f"rp2v.checks.{check_id.lower()}")
    budget = mod.budget(tier)
    shards = shards_override or budget.get("shards", 16)
    examples = examples_override or budget["examples"]
    shrink = budget.get("shrink", True)
    fast_fail = bool(os.environ.get("RP2V_FAST_FAIL"))  # sensitivity runs (tools/mutants.py, tools/seeded.py): detection only, no shrinking
    if fast_fail:
        shrink = False
    deadline_s = float(budget.get("deadline_s", 3000 if tier == "thorough" else 600))
    known = known_for(check_id)

    violations: List[Tuple[str, str, str]] = []  # (replay path, clause, detail)
    known_hits: Dict[str, int] = {}
    errors: List[str] = []
    evaluations = 0
    hashes: Set[int] = set()
    classes: Dict[str, int] = {}
    skipped: Dict[str, int] = {}
    samples: List[Any] = []
    metrics: Dict[str, Any] = {}
    budget_exhausted = False
    extra_cov: Dict[str, Any] = {}

    # 1. regression tier + optional non-Hypothesis part (exhaustive grids etc.), in a scratch dir
    enter_scratch()
    try:
        n_regress, reg_violations, reg_known = run_regress(mod, check_id, known)
        violations.extend(reg_violations)
        for sig, n in reg_known.items():
            known_hits[sig] = known_hits.get(sig, 0) + n
        if hasattr(mod, "extra"):
            ext = mod.extra(tier, seed)
            evaluations += ext.get("evaluations", 0)
            for h in ext.get("nontrivial_hashes", []):
                hashes.add(h)
            for cls, n in ext.get("classes", {}).items():
                classes[cls] = classes.get(cls, 0) + n
            samples.extend(ext.get("samples", [])[:2])
            extra_cov.update(ext.get("coverage", {}))
            for vio in ext.get("violations", []):
                sig = match_known(mod, vio["case"], vio["clause"], vio["detail"], known)
                if sig is not None:
                    known_hits[sig] = known_hits.get(sig, 0) + 1
                    continue
                path = write_replay(check_id, {"property": check_id, "clause": vio["clause"], "detail": vio["detail"], "case": vio["case"]})
                violations.append((path, vio["clause"], vio["detail"]))
    finally:
        leave_scratch()

    # 2. sharded generated search
    if shards > 0 and examples > 0 and (hasattr(mod, "strategy") or hasattr(mod, "machine")):
        with ProcessPoolExecutor(max_workers=min(shards, os.cpu_count() or 16)) as pool:
            futures = [
                pool.submit(_shard_worker, check_id, tier, seed, k, examples, shrink, deadline_s, int(budget.get("machine_examples", 0)), int(budget.get("machine_steps", 14)), int(budget.get("examples2", 0)))
                for k in range(shards)
            ]
            for fut in as_completed(futures):
                res = fut.result()
                if res["error"]:
                    errors.append(f"shard {res['shard']}: {res['error']}")
                    continue
                evaluations += res["evaluations"]
                hashes.update(res["nontrivial_hashes"])
                for cls, n in res["classes"].items():
                    classes[cls] = classes.get(cls, 0) + n
                for why, n in res["skipped"].items():
                    skipped[why] = skipped.get(why, 0) + n
                for sig, n in res["known_hits"].items():
                    known_hits[sig] = known_hits.get(sig, 0) + n
                for key, value in res["metrics"].items():
                    if key.startswith("max_"):
                        val = Fraction(value) if isinstance(value, str) else value
                        prev = metrics.get(key)
                        metrics[key] = val if prev is None else max(prev, val)
                    else:
                        metrics[key] = metrics.get(key, 0) + (Fraction(value) if isinstance(value, str) else value)
                budget_exhausted = budget_exhausted or res["budget_exhausted"]
                if len(samples) < 5:
                    samples.extend(res["samples"][: 5 - len(samples)])
                if res["violation"]:
                    vio = res["violation"]
                    case = vio["case"]
                    if hasattr(mod, "minimize") and not fast_fail and (not shrink or (isinstance(case, dict) and case.get("e2e"))):
                        enter_scratch()
                        try:
                            case = mod.minimize(case, vio["clause"])
                        finally:
                            leave_scratch()
                    path = write_replay(check_id, {"property": check_id, "clause": vio["clause"], "detail": vio["detail"], "case": case})
                    violations.append((path, vio["clause"], vio["detail"]))

    wall = time.time() - start
    if errors:
        for err in errors[:3]:
            print(err)
        raise HarnessError(f"{len(errors)} shard(s) failed inside the harness")

    # 3. report
    for sig, n in sorted(known_hits.items()):
        print(f"KNOWN-FINDING: property={check_id} {known[sig]['what']} [signature={sig}, hit {n}x this run]")
    seen_clauses: Set[str] = set()
    for path, clause, detail in violations:
        if clause in seen_clauses:
            continue
        seen_clauses.add(clause)
        print(f"violated clause: {clause}\n  {detail[:600]}")
        print(f"VIOLATION property={check_id} replay={path}")

    coverage: Dict[str, Any] = {
        "evaluations": evaluations + n_regress,
        "distinct_nontrivial": len(hashes),
        "rule": mod.RULE,
        "samples": samples[:5] if samples else [{"note": "no non-trivial sample recorded"}],
        "classes": dict(sorted(classes.items())),
        "regress_cases": n_regress,
        "excluded_known": known_hits,
        "ambiguous_skipped": skipped,
        "budget_exhausted": budget_exhausted,
        "shards": shards,
        "examples_per_shard": examples,
        "examples2_per_shard": int(budget.get("examples2", 0)),
    }
    for key, value in metrics.items():
        coverage[key] = float(value) if isinstance(value, Fraction) else value
    coverage.update(extra_cov)
    evidence = {
        "property_id": check_id,
        "tier": tier,
        "seed": seed,
        "level": mod.LEVEL,
        "coverage": jsonable(coverage),
        "assumptions": list(getattr(mod, "ASSUMPTIONS", [])),
        "wall_s": round(wall, 2),
        "violations": len(seen_clauses),
    }
    os.makedirs(EVIDENCE_DIR, exist_ok=True)
    tmp = os.path.join(EVIDENCE_DIR, f".{check_id}.json.tmp")
    with open(tmp, "w", encoding="utf-8") as handle:
        json.dump(evidence, handle, indent=1, sort_keys=True)
        handle.write("\n")
    os.replace(tmp, os.path.join(EVIDENCE_DIR, f"{check_id}.json"))
    print(
        f"{check_id} {tier} seed={seed}: evaluations={coverage['evaluations']} distinct_nontrivial={len(hashes)} "
        f"violations={len(seen_clauses)} known={sum(known_hits.values())} wall={wall:.1f}s"
    )
    return 1 if violations else 0
