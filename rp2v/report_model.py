"""Readers that turn generated reports into plain tables (independent of rp2 and of ezodf: rp2v.files.read_ods).

Localised titles are located through Python's own gettext on the repository's locale catalogues.
"""
from __future__ import annotations

import gettext
import os
from decimal import Decimal
from fractions import Fraction
from typing import Any, Callable, Dict, List, Optional, Tuple

from . import files
from .files import Cell

LOCALES = os.path.join(os.environ.get("RP2V_REPO_SRC") or "/repo/src/rp2", "locales")


def translator(lang: str) -> Callable[[str], str]:
    try:
        return gettext.translation("messages", localedir=LOCALES, languages=[lang]).gettext
    except FileNotFoundError:
        return lambda s: s


def is_blank_row(row: List[Cell], upto: int = 20) -> bool:
    return all(c.empty for c in row[:upto])


def cellv(row: List[Cell], col: int) -> Any:
    """Reader-visible value of a cell (hyperlink payload if it is a link)."""
    if col >= len(row):
        return None
    return files.cell_payload(row[col])


def link_of(row: List[Cell], col: int) -> Optional[Tuple[str, int, Any]]:
    if col >= len(row):
        return None
    return files.parse_hyperlink(row[col].formula)


def to_fraction(value: Any) -> Optional[Fraction]:
    if value is None or value == "":
        return None
    if isinstance(value, Fraction):
        return value
    if isinstance(value, Decimal):
        return Fraction(value)
    if isinstance(value, float):
        return Fraction(value)
    if isinstance(value, int):
        return Fraction(value)
    try:
        return Fraction(Decimal(str(value)))
    except Exception:  # pylint: disable=broad-except
        return None


def num_equal(cell_value: Any, expected: Fraction, exact_if_decimal: bool = True) -> bool:
    """A float cell must equal the expected value to double precision; a Decimal payload (hyperlink text) exactly."""
    if cell_value is None or cell_value == "":
        return False
    if isinstance(cell_value, Decimal):
        return Fraction(cell_value) == expected
    if isinstance(cell_value, (int, float)):
        got = float(cell_value)
        want = float(expected)
        if got == want:
            return True
        scale = max(abs(want), 5e-324)
        return abs(got - want) <= 4.5e-16 * scale
    return False


class FullReport:
    """Parsed rp2_full_report.ods."""

    def __init__(self, path: str, lang: str) -> None:
        self.path = path
        self.t = translator(lang)
        self.sheets = files.read_ods(path)
        self.sheet_names = list(getattr(self.sheets, "all_names", list(self.sheets)))

    # ---- sheet names
    def in_out_name(self, asset: str) -> str:
        return self.t("{} In-Out").format(asset)

    def tax_name(self, asset: str) -> str:
        return self.t("{} Tax").format(asset)

    def summary_name(self) -> str:
        return self.t("Summary")

    def legend_name(self) -> str:
        return self.t("Legend")

    # ---- generic table reader
    def table_rows(self, sheet: str, title: str, key_col: int, start: int = 0) -> Tuple[Optional[int], List[Tuple[int, List[Cell]]]]:
        """(0-based title row, [(0-based sheet row index, cells)...]) of the data rows below a table title: data start three
        rows below the title (title, two header rows) and end at the first row whose key column is empty."""
        rows = self.sheets[sheet]
        title_row = files.find_title_row(rows, self.t(title), start)
        if title_row is None:
            return None, []
        data: List[Tuple[int, List[Cell]]] = []
        i = title_row + 3
        while i < len(rows) and key_col < len(rows[i]) and not rows[i][key_col].empty:
            data.append((i, rows[i]))
            i += 1
        return title_row, data

    def legend(self) -> Dict[str, Any]:
        rows = self.sheets[self.legend_name()]
        result: Dict[str, Any] = {}
        for i, row in enumerate(rows[:100]):
            if row and row[0].value == self.t("Accounting Method"):
                result["method"] = row[1].value if len(row) > 1 else None
                result["from"] = rows[i + 1][1].value if len(rows[i + 1]) > 1 else None
                result["to"] = rows[i + 2][1].value if len(rows[i + 2]) > 1 else None
                result["from_label"] = rows[i + 1][0].value
                result["to_label"] = rows[i + 2][0].value
                break
        return result


def us_date(d: Tuple[int, int, int]) -> str:
    return f"{d[1]:02d}/{d[2]:02d}/{d[0]:04d}"


def ie_date(d: Tuple[int, int, int]) -> str:
    return f"{d[0]:04d}/{d[1]:02d}/{d[2]:02d}"
