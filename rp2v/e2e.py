"""End-to-end tier of the engine-layer checks (C01-C07): input files -> real console entry point -> rp2_full_report.ods ->
the same predicates the API tier uses, with *nothing* of rp2 in the checking process.

The API tier (drive_api) shares rp2's constructors, parser and ComputedData with the code under test, and the file-layer
report checks (C13-C15) use ComputedData as "the computed values".  A defect that sits in what both sides share is
invisible to each of them separately.  Here a generated multi-asset file case is written to .ini/.ods, `rp2_<country>` runs
as a subprocess, and the report's cells are turned back into the dump format of drive_api.dump_computed:

  fractions  <- '<asset> Tax' / Gain-Loss Detail rows (event and lot identified by (table, unique id) -> generated row)
  taxable    <- '<asset> In-Out' rows whose 'Taxable Event' cell says YES
  yearly     <- '<asset> Tax' / Gain-Loss Summary
  balances   <- '<asset> Tax' / Account Balances

Precision: crypto amounts in cells are doubles of values with <= 11 decimals below 32768 (R1), so rounding to 11 decimals
recovers them exactly; proceeds and cost basis are read from the full-precision decimal inside the HYPERLINK formula where
there is one; everything else is a double and compared at 1e-11 relative by the callers.
English catalogues only (type names are matched as text): us, generic, ie, jp -g en.
"""
from __future__ import annotations

import os
from decimal import Decimal
from fractions import Fraction
from typing import Any, Dict, List, Optional, Tuple

from hypothesis import strategies as st

from . import cli, cli_common, filegen, files, gen, model, report_model
from .report_model import cellv

RULE_SUFFIX = (
    " End-to-end tier (second generator, examples2 cases per shard): Hypothesis-generated multi-asset file cases (1-3 assets, "
    "2-3 exchanges x 1-2 holders, rows shuffled in the sheet, crypto-fee acquisitions, supplied fiat columns where the check "
    "enables them, volume tail, -m or [accounting_methods]) written to .ini/.ods, run through the real rp2_<country> console "
    "entry point; the same predicate is applied to figures read back from rp2_full_report.ods and related to the generated "
    "rows by (table, unique id); classes e2e_*."
)
E11 = 10**11
CLASS_OF_TABLE = {"in": "InTransaction", "out": "OutTransaction", "intra": "IntraTransaction"}


def amount11(value: Any) -> Optional[Fraction]:
    """Cell value -> exact amount with 11 decimals (R1)."""
    if value is None or value == "":
        return None
    if isinstance(value, Decimal):
        return Fraction(value)
    return Fraction(round(float(value) * E11), E11) if abs(float(value)) < 2**15 else Fraction(Decimal(f"{float(value):.11f}"))


def num(value: Any) -> Optional[Fraction]:
    return report_model.to_fraction(value)


@st.composite
def file_strategy(draw: Any, hist: gen.GenCfg, countries: Tuple[str, ...] = ("us", "us", "generic", "ie", "jp"), to_dates: bool = False, from_dates: bool = False, max_assets: int = 3, **kw: Any) -> Dict[str, Any]:
    case = draw(filegen.file_case(countries=countries, hist=hist, windows=to_dates or from_dates, allow_from=from_dates, langs=False, max_assets=max_assets, **kw))
    case["lang"] = "en" if case["country"] == "jp" else None
    case["e2e"] = True
    return case


def type_of(text: Any) -> str:
    """'IN / INTEREST' or 'SELL' -> lower-case type; transfers are 'move'."""
    word = str(text).split("/")[-1].strip().lower()
    return word


def run(case: Dict[str, Any], folder: str) -> Tuple[cli.CliResult, Optional[Dict[str, Dict[str, Any]]], Dict[str, List[Dict[str, Any]]]]:
    """Run the case; returns (cli result, {asset: dump} or None when the run failed, {asset: model rows})."""
    result, _ini, _ods, outdir = cli_common.run_case(case, folder)
    rows_model = filegen.case_post_rows(case)
    if result.rc != 0:
        return result, None, rows_model
    label = cli.method_label(case.get("method"), case.get("schedule"), case["country"])
    path = os.path.join(outdir, f"{case.get('prefix') or ''}{label}_rp2_full_report.ods")
    if not os.path.exists(path):
        return result, {asset: {"ok": False, "error_type": "ReportNotWritten", "error": f"{os.path.basename(path)} missing: {result.files}", "internal": False} for asset in rows_model}, rows_model
    report = report_model.FullReport(path, "en")
    dumps: Dict[str, Dict[str, Any]] = {}
    for asset, rows in rows_model.items():
        dumps[asset] = asset_dump(report, asset, rows)
    return result, dumps, rows_model


def asset_dump(report: report_model.FullReport, asset: str, rows: List[Dict[str, Any]]) -> Dict[str, Any]:
    txs = model.make_txs(rows)
    by_key: Dict[Tuple[str, str], int] = {}
    ambiguous = set()
    for t in txs:
        key = (t.table, t.uid)
        if key in by_key:
            ambiguous.add(key)
        by_key[key] = t.row
    problems: List[str] = []
    in_out, tax = report.in_out_name(asset), report.tax_name(asset)
    if in_out not in report.sheets or tax not in report.sheets:
        return {"ok": False, "error_type": "ReportSheetMissing", "error": f"sheets of {asset} missing: {report.sheet_names}", "internal": False}
    # ---- taxable flags from the In-Out sheet
    taxable: List[Dict[str, Any]] = []
    listed: Dict[str, List[int]] = {"in": [], "out": [], "intra": []}
    ins: List[Dict[str, Any]] = []
    start = 0
    for table, title, type_col, taxable_col in (("in", "In-Flow Detail", 5, 12), ("out", "Out-Flow Detail", 5, 13), ("intra", "Intra-Flow Detail", None, 13)):
        title_row, data = report.table_rows(in_out, title, 1, start)
        if title_row is None:
            problems.append(f"table {title} missing")
            continue
        start = title_row + 1
        for _i, row in data:
            key = (table, str(cellv(row, 14) or ""))
            if key not in by_key or key in ambiguous:
                problems.append(f"{table} row with unique id {key[1]!r} cannot be related to an input row")
                continue
            listed[table].append(by_key[key])
            if table == "in":
                shown = cellv(row, 0)
                ins.append({"row": by_key[key], "sold_pct": num(shown) if shown not in (None, "") else Fraction(0)})
            if str(cellv(row, taxable_col)) == "YES":
                if table == "in":
                    amount = amount11(cellv(row, 7))
                elif table == "out":
                    amount = (amount11(cellv(row, 7)) or Fraction(0)) + (amount11(cellv(row, 8)) or Fraction(0))
                else:
                    amount = amount11(cellv(row, 10))
                taxable.append({"row": by_key[key], "class": CLASS_OF_TABLE[table], "type": "move" if table == "intra" else type_of(cellv(row, type_col)), "amount": amount})
    # ---- yearly summary
    yearly: List[Dict[str, Any]] = []
    title_row, data = report.table_rows(tax, "Gain / Loss Summary", 0)
    for _i, row in data:
        yearly.append(
            {
                "year": int(num(cellv(row, 0)) or 0),
                "asset": str(cellv(row, 1)),
                "type": type_of(cellv(row, 4)),
                "long": str(cellv(row, 3)) == "LONG",
                "gain": num(cellv(row, 2)),
                "crypto": amount11(cellv(row, 5)),
                "fiat": num(cellv(row, 6)),
                "basis": num(cellv(row, 7)),
            }
        )
    # ---- the same lines on the 'Summary' sheet (all assets in one table; this asset's lines)
    summary_sheet: Optional[List[Dict[str, Any]]] = None
    if report.summary_name() in report.sheets:
        _s, sdata = report.table_rows(report.summary_name(), "Yearly Gain / Loss Summary", 0)
        summary_sheet = [
            {"year": int(num(cellv(row, 0)) or 0), "asset": str(cellv(row, 1)), "type": type_of(cellv(row, 4)), "long": str(cellv(row, 3)) == "LONG", "gain": num(cellv(row, 2)), "crypto": amount11(cellv(row, 5)), "fiat": num(cellv(row, 6)), "basis": num(cellv(row, 7))}
            for _i, row in sdata
            if str(cellv(row, 1)) == asset
        ]
    # ---- balances
    balances: List[Dict[str, Any]] = []
    holder_totals: Dict[str, Fraction] = {}
    title_row2, data = report.table_rows(tax, "Account Balances", 0, (title_row or 0) + 1)
    for _i, row in data:
        if cellv(row, 0) == "Total" and cellv(row, 2) in (None, ""):
            holder_totals[str(cellv(row, 1))] = amount11(cellv(row, 6)) or Fraction(0)
            continue
        balances.append({"ex": str(cellv(row, 0)), "ho": str(cellv(row, 1)), "acquired": amount11(cellv(row, 3)), "sent": amount11(cellv(row, 4)), "received": amount11(cellv(row, 5)), "final": amount11(cellv(row, 6))})
    # ---- detail
    fractions: List[Dict[str, Any]] = []
    _t, data = report.table_rows(tax, "Gain / Loss Detail", 0, (title_row2 or 0) + 1)
    for _i, row in data:
        direction = str(cellv(row, 6))
        table = direction.split("/")[0].strip().lower()
        ev_key = (table, str(cellv(row, 10) or ""))
        if ev_key not in by_key or ev_key in ambiguous:
            problems.append(f"detail row: taxable event {ev_key} cannot be related to an input row")
            continue
        lot_row: Optional[int] = None
        if cellv(row, 12) not in (None, ""):
            lot_key = ("in", str(cellv(row, 18) or ""))
            if lot_key not in by_key or lot_key in ambiguous:
                problems.append(f"detail row: acquired lot {lot_key} cannot be related to an input row")
                continue
            lot_row = by_key[lot_key]
        fractions.append(
            {
                "ev": by_key[ev_key],
                "ev_class": CLASS_OF_TABLE.get(table, table),
                "ev_type": "move" if table == "intra" else type_of(direction),
                "lot": lot_row,
                "amount": amount11(cellv(row, 0)),
                "proceeds": num(cellv(row, 8)),
                "basis": num(cellv(row, 16)) if lot_row is not None else Fraction(0),
                "gain": num(cellv(row, 3)),
                "long": str(cellv(row, 4)) == "LONG",
                "types": ("RP2Decimal",) * 4,
            }
        )
    if problems:
        return {"ok": False, "error_type": "ReportNotRelatable", "error": "; ".join(problems[:3]), "internal": False}
    return {"ok": True, "fractions": fractions, "taxable": taxable, "yearly": yearly, "balances": balances, "holder_totals": holder_totals, "listed": listed, "ins": ins, "ins_rel": Fraction(1, 10**11), "summary_sheet": summary_sheet}


def evaluate_assets(case: Dict[str, Any], tag: str, judge: Any, failure_is_violation: Tuple[str, ...] = ()) -> Any:
    """Shared evaluate() of the end-to-end tier: run the case, then call judge(out, asset, txs, dump, schedule) per asset."""
    from .runner import Outcome

    out = Outcome()
    out.classes.add("e2e_cli")
    out.classes.add(f"e2e_{case['country']}")
    out.classes |= cli_common.volume_classes(case)
    if len(case["assets"]) > 1:
        out.classes.add("e2e_multi_asset")
    folder = cli_common.work_dir(tag)
    try:
        result, dumps, rows_model = run(case, folder)
        if dumps is None:
            bucket = cli_common.crash_bucket(result.text)
            for fragment in failure_is_violation:
                # the inputs are valid by construction: a run that dies in the named part of rp2 rejected a valid history
                if cli_common.aborted_in(result.text, fragment):
                    last = [line for line in result.text.strip().splitlines() if line.strip()][-1:]
                    out.fail("valid_history_rejected", f"[end-to-end: rp2_{case['country']}] exit status {result.rc}, {bucket}: {last}")
                    return out
            out.skipped = "e2e_run_failed(C16)"
            if bucket:
                out.classes.add(f"e2e_crash_{bucket}")
            return out
        schedule = cli_common.schedule_of(case)
        for asset in sorted(dumps):
            dump = dumps[asset]
            if not dump["ok"]:
                out.skipped = f"e2e_{dump['error_type']}(C13)"
                return out
            txs = model.make_txs(rows_model[asset])
            judge(out, asset, txs, dump, schedule)
            if out.violations:
                out.violations = [(clause, f"[end-to-end: rp2_{case['country']} report, asset {asset}] {detail}") for clause, detail in out.violations]
                return out
    finally:
        cli_common.cleanup(folder)
    return out


def minimize(case: Dict[str, Any], clause: str, evaluate: Any) -> Dict[str, Any]:
    def still_fails(candidate: Dict[str, Any]) -> bool:
        return any(c == clause for c, _ in evaluate(candidate).violations)

    return cli_common.minimize(case, still_fails, budget=25)
