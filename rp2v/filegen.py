"""Generators and helpers for file-layer cases (config + spreadsheet + command line options).

A file case is a JSON-serialisable dict:
  country, lang, method (-m) | schedule ([accounting_methods]), from, to, allow_negative, asset_opt (-a), prefix,
  exchanges, holders, layout ({table: {field: column}} or None for the default), long_term_days (generic),
  assets: {name: {"tables": [[table, [raw rows...]], ...] in sheet order, "blank": n, "first_blank": n}}
Raw rows are spreadsheet rows *before* parsing (an IN row may carry crypto_fee).  materialize() writes the two files
and stamps every raw row with its 1-based sheet row number; post_rows() converts raw rows to the model's post-parse rows
(crypto-fee acquisitions split into acquisition + artificial FEE disposal with negative ids, numbered like
Configuration.get_new_artificial_id does: one counter per run, assets in sorted order, rows in sheet order).
"""
from __future__ import annotations

import os
from decimal import Decimal
from typing import Any, Dict, List, Optional, Tuple

from hypothesis import strategies as st

from . import files, gen, model
from .cli import COUNTRY_LANGS, COUNTRY_METHODS, COUNTRY_REPORTS

NUMERIC_KEYS = ("price", "crypto_in", "crypto_fee", "fiat_in_no_fee", "fiat_in_with_fee", "fiat_fee", "out", "fee", "out_with_fee", "fiat_out_no_fee", "sent", "received")
ASSETS = ["BTC", "ETH", "B1", "XLM", "DOT.x", "ADA_2", "PancakeSwap-LP-CAKE-BNB-2021", "PancakeSwap-LP-CAKE-BNB-2022"]  # two long names that differ only at the very end (LP tokens)
NOTES = ["", "", "first buy", "monthly plan", "cold storage 2", "see ticket 42", "rebalancing"]


def canonical(text: str) -> str:
    """The number a spreadsheet cell holds for this decimal, as RP2 reads it: double -> '%.11f' (R1)."""
    value = Decimal(f"{float(text):.11f}")
    return gen._frac_to_str(model.F(str(value))) if value != 0 else "0"


def to_raw(post_rows: List[Dict[str, Any]]) -> List[Dict[str, Any]]:
    """Post-parse rows of gen.history -> raw spreadsheet rows (artificial fee rows folded back into crypto_fee)."""
    art = {r["artificial_for"]: r for r in post_rows if r.get("artificial_for") is not None}
    raw: List[Dict[str, Any]] = []
    for row in post_rows:
        if row.get("artificial_for") is not None:
            continue
        new = {k: v for k, v in row.items() if k not in ("row",)}
        if row["table"] == "in" and row["row"] in art:
            fee = art[row["row"]]["fee"]
            in_value = model.F(row["crypto_in"]) * model.F(row["price"])
            if in_value >= model.F("0.000000000001"):
                new["crypto_fee"] = fee
                new.pop("fiat_fee", None)
            else:
                # R13: dust fiat value below RP2's 13-decimal resolution -> keep the row without the crypto fee;
                # the fee amount stays in the account (harmless for validity)
                new.pop("fiat_fee", None)
        for key in NUMERIC_KEYS:
            if key in new and new[key] is not None:
                new[key] = canonical(new[key])
        raw.append(new)
    return raw


def post_rows(raw_rows: List[Dict[str, Any]], next_art: int = -1) -> Tuple[List[Dict[str, Any]], int]:
    """Raw rows (stamped with their sheet row) -> model rows; returns (rows, next artificial id)."""
    result: List[Dict[str, Any]] = []
    artificial: List[Dict[str, Any]] = []
    for raw in sorted(raw_rows, key=lambda r: r["row"]):
        row = dict(raw)
        if row["table"] == "in" and row.get("crypto_fee") not in (None, "0"):
            fee = row.pop("crypto_fee")
            fee_fiat = model.F(fee) * model.F(row["price"])
            row["fiat_fee"] = gen._frac_to_str(fee_fiat)
            artificial.append(
                {
                    "table": "out",
                    "row": next_art,
                    "ts": row["ts"],
                    "ex": row["ex"],
                    "ho": row["ho"],
                    "type": "fee",
                    "price": row["price"],
                    "out": "0",
                    "fee": fee,
                    "uid": row.get("uid", ""),
                    "artificial_for": row["row"],
                }
            )
            next_art -= 1
        else:
            row.pop("crypto_fee", None)
        result.append(row)
    return result + artificial, next_art


@st.composite
def boundary_to_date(draw: Any, case: Dict[str, Any]) -> Optional[str]:
    """A to-date equal to the earlier of (own local date, UTC date) of a transaction for which the two differ: the transaction's
    own date decides on which side of the to-date it falls, whatever its UTC date says.  None if there is no such transaction."""
    candidates = []
    for spec in case["assets"].values():
        for _, rows in spec["tables"]:
            for r in rows:
                tx = model.make_tx(dict(r, row=1))
                utc_day = model.local_date(tx.us, 0)
                if utc_day != tx.day:
                    candidates.append(min(utc_day, tx.day))
    if not candidates:
        return None
    return draw(st.sampled_from(sorted(set(candidates)))).isoformat()


def case_post_rows(case: Dict[str, Any]) -> Dict[str, List[Dict[str, Any]]]:
    """{asset: model rows} for a materialized case (all assets, numbering artificial ids like one CLI run does)."""
    next_art = -1
    result: Dict[str, List[Dict[str, Any]]] = {}
    processed = [case["asset_opt"]] if case.get("asset_opt") else sorted(case["assets"])
    for asset in processed:
        raw = [r for _, rows in case["assets"][asset]["tables"] for r in rows]
        result[asset], next_art = post_rows(raw, next_art)
    return result


def stamp_rows(case: Dict[str, Any]) -> Dict[str, List[List[Any]]]:
    """Build the sheet grids (stamping each raw row with its sheet row number)."""
    layout = case.get("layout") or files.default_layout()
    grids: Dict[str, List[List[Any]]] = {}
    for asset, spec in case["assets"].items():
        tables = [(t, rows) for t, rows in spec["tables"]]
        grid, _ = files.build_sheet_grid(asset, tables, layout, blank_between=spec.get("blank", 1), first_blank=spec.get("first_blank", 0), trailing_blank=spec.get("trailing_blank", 0))
        grids[asset] = grid
    return grids


def materialize(case: Dict[str, Any], folder: str, name: str = "input") -> Tuple[str, str]:
    """Write <folder>/<name>.ini and <folder>/<name>.ods for the case; returns their paths."""
    os.makedirs(folder, exist_ok=True)
    grids = stamp_rows(case)
    ini = os.path.join(folder, f"{name}.ini")
    ods = os.path.join(folder, f"{name}.ods")
    order = case.get("sheet_order") or list(case["assets"])
    general_extra = None
    if case.get("generators_field"):
        # the documented optional `generators` field, naming every generator of the country's default set (so "use these" and
        # "use the default set" mean the same reports)
        names = [("%s.%s" % (case["country"], r) if r.startswith("tax_report_") else r) for r in COUNTRY_REPORTS[case["country"]]]
        general_extra = ["generators = " + ", ".join(names)]
    files.write_ini(ini, case.get("config_assets") or list(case["assets"]), case["exchanges"], case["holders"], case.get("layout"), case.get("schedule"), general_extra=general_extra)
    files.write_ods(ods, [(asset, grids[asset]) for asset in order])
    return ini, ods


def _liquidation_rows(draw: Any, rows: List[Dict[str, Any]]) -> List[Dict[str, Any]]:
    """One final disposal per funded account taking everything it holds (asset fully sold)."""
    txs = model.make_txs(rows)
    flows = model.account_flows(txs, None)
    last = max(txs, key=lambda t: t.us)
    result: List[Dict[str, Any]] = []
    us = last.us
    next_row = max(t.row for t in txs) + 1
    for (ex, ho), flow in sorted(flows.items()):
        if flow.final > 0:
            us += draw(st.integers(1, 90)) * gen.DAY_US
            result.append({"table": "out", "row": next_row, "ts": model.fmt_ts(us, last.off), "ex": ex, "ho": ho, "type": draw(st.sampled_from(["sell", "gift", "donate"])), "price": "321.5", "out": gen._frac_to_str(flow.final), "fee": "0", "uid": "x"})
            next_row += 1
    return result


@st.composite
def _sparse_years(draw: Any, cfg: gen.GenCfg) -> Dict[str, Any]:
    """An asset active in a drawn subset of the years 2016..2022 only (a buy in each active year, often a partial disposal or a
    transfer with fee as well): several such assets in one input have gap years that other assets fill."""
    accounts = [(e, gen.HOLDER_NAMES[0]) for e in gen.EXCHANGE_NAMES[: max(1, min(2, cfg.max_exchanges))]]
    years = [y for y in range(2016, 2023) if draw(st.booleans())] or [draw(st.integers(2016, 2022))]
    rows: List[Dict[str, Any]] = []
    held = 0
    n = 0
    for year in years:
        us = gen._year_start_us(year) + draw(st.integers(5, 150)) * gen.DAY_US + draw(st.integers(0, 86399)) * gen.US
        acc = accounts[0]
        units = draw(st.integers(1, 5000)) * (gen.UNIT // 1000)
        rows.append({"table": "in", "row": 0, "ts": model.fmt_ts(us, 0), "ex": acc[0], "ho": acc[1], "type": draw(st.sampled_from(["buy", "buy", "interest"])), "price": gen.units_to_str(draw(st.integers(1, 900)) * gen.UNIT), "crypto_in": gen.units_to_str(units), "uid": f"y{n}"})
        held += units
        n += 1
        kind = draw(st.integers(0, 3))
        us += draw(st.integers(1, 150)) * gen.DAY_US
        if kind in (1, 2) and held > 2:
            take = max(1, held // draw(st.sampled_from([2, 3, 10])))
            rows.append({"table": "out", "row": 0, "ts": model.fmt_ts(us, 0), "ex": acc[0], "ho": acc[1], "type": draw(st.sampled_from(["sell", "gift", "fee"])), "price": gen.units_to_str(draw(st.integers(1, 900)) * gen.UNIT), "out": gen.units_to_str(take), "fee": "0", "uid": f"y{n}"})
            if rows[-1]["type"] == "fee":
                rows[-1]["out"], rows[-1]["fee"] = "0", gen.units_to_str(take)
            held -= take
            n += 1
        elif kind == 3 and held > 2 and len(accounts) > 1:
            take = max(2, held // 4)
            rows.append({"table": "intra", "row": 0, "ts": model.fmt_ts(us, 0), "from_ex": acc[0], "from_ho": acc[1], "to_ex": acc[0], "to_ho": acc[1], "price": gen.units_to_str(draw(st.integers(1, 900)) * gen.UNIT), "sent": gen.units_to_str(take), "received": gen.units_to_str(take - 1), "uid": f"y{n}"})
            held -= 1
            n += 1
    for i, row in enumerate(rows):
        row["row"] = cfg.first_row + i
    return {"asset": cfg.asset, "exchanges": [a[0] for a in accounts], "holders": [accounts[0][1]], "rows": rows}


@st.composite
def _new_year_offsets(draw: Any, cfg: gen.GenCfg) -> Dict[str, Any]:
    """Records of exchanges in different time zones within hours of New Year: an entry dated 1 January of year Y (own offset
    east of UTC) whose instant is *earlier* than that of an entry dated 31 December of Y-1 (own offset at or west of UTC), and
    then often one more of each kind, so that along the time axis the own years read Y, Y-1, Y, (Y-1).  The year of an entry is
    that of its own timestamp (R3 does not hold here by design; no date window is used with this flavour)."""
    acc = (gen.EXCHANGE_NAMES[0], gen.HOLDER_NAMES[0])
    other = (gen.EXCHANGE_NAMES[1 if cfg.max_exchanges > 1 else 0], gen.HOLDER_NAMES[0])
    year = draw(st.integers(2017, 2022))
    new_year = gen._year_start_us(year)  # 00:00 UTC, 1 January of `year`
    rows: List[Dict[str, Any]] = []
    n = 0

    def price() -> str:
        return gen.units_to_str(draw(st.integers(1, 900)) * gen.UNIT)

    def add(kind: str, us: int, off: int) -> None:
        nonlocal n
        ts = model.fmt_ts(us, off)
        if kind == "in":
            rows.append({"table": "in", "row": 0, "ts": ts, "ex": acc[0], "ho": acc[1], "type": draw(st.sampled_from(["buy", "buy", "interest"])), "price": price(), "crypto_in": gen.units_to_str(draw(st.integers(1, 3000)) * (gen.UNIT // 1000)), "uid": f"ny{n}"})
        elif kind == "out":
            rows.append({"table": "out", "row": 0, "ts": ts, "ex": acc[0], "ho": acc[1], "type": draw(st.sampled_from(["sell", "sell", "gift"])), "price": price(), "out": gen.units_to_str(draw(st.integers(1, 900)) * (gen.UNIT // 1000)), "fee": "0", "uid": f"ny{n}"})
        else:
            sent = draw(st.integers(2, 900)) * (gen.UNIT // 1000)
            rows.append({"table": "intra", "row": 0, "ts": ts, "from_ex": acc[0], "from_ho": acc[1], "to_ex": other[0], "to_ho": other[1], "price": price(), "sent": gen.units_to_str(sent), "received": gen.units_to_str(sent - gen.UNIT // 1000), "uid": f"ny{n}"})
        n += 1

    rows.append({"table": "in", "row": 0, "ts": model.fmt_ts(new_year - draw(st.integers(20, 500)) * gen.DAY_US, 0), "ex": acc[0], "ho": acc[1], "type": "buy", "price": price(), "crypto_in": "10", "uid": "ny_lot"})
    east = [60, 5 * 60 + 30, 9 * 60, 12 * 60 + 45, 14 * 60]
    west = [0, 0, -5 * 60, -8 * 60, -12 * 60]
    # instants inside the last hour of 31 December UTC: dated 1 January with any eastern offset, 31 December with any western one
    us = new_year - 3600 * gen.US + draw(st.integers(1, 600)) * gen.US
    for k in range(draw(st.integers(2, 4))):
        add(draw(st.sampled_from(["in", "out", "out", "intra"])), us, draw(st.sampled_from(east if k % 2 == 0 else west)))
        us += draw(st.integers(1, 600)) * gen.US
    if draw(st.booleans()):
        add(draw(st.sampled_from(["in", "out"])), new_year + draw(st.integers(30, 700)) * gen.DAY_US, 0)
    for i, row in enumerate(rows):
        row["row"] = cfg.first_row + i
    return {"asset": cfg.asset, "exchanges": sorted({acc[0], other[0]}, key=gen.EXCHANGE_NAMES.index), "holders": [acc[1]], "rows": rows}


@st.composite
def _same_second_trades(draw: Any, cfg: gen.GenCfg) -> Dict[str, Any]:
    """Millisecond-resolution trading: two or three earlier lots, then a disposal and a purchase (with a crypto fee, i.e. one the
    parser re-creates) inside the same wall-clock second, the purchase a few hundred milliseconds *after* the disposal and priced
    above / timed after every earlier lot, then one more disposal later.  The purchase must never be visible to the disposal
    that precedes it, under any method."""
    acc = (gen.EXCHANGE_NAMES[0], gen.HOLDER_NAMES[0])
    us = gen._year_start_us(draw(st.integers(2017, 2021))) + draw(st.integers(0, 300)) * gen.DAY_US + draw(st.integers(0, 86398)) * gen.US
    rows: List[Dict[str, Any]] = []
    held = 0
    for i in range(draw(st.integers(2, 3))):
        units = draw(st.integers(500, 3000)) * (gen.UNIT // 1000)
        rows.append({"table": "in", "row": 0, "ts": model.fmt_ts(us, 0), "ex": acc[0], "ho": acc[1], "type": "buy", "price": gen.units_to_str(draw(st.integers(100, 300)) * gen.UNIT), "crypto_in": gen.units_to_str(units), "uid": f"l{i}"})
        held += units
        us += draw(st.integers(1, 60)) * gen.DAY_US
    second = us - us % gen.US
    sell_us = second + draw(st.integers(1, 400)) * 1000
    buy_us = sell_us + draw(st.integers(1, 500)) * 1000
    take = max(1, held // draw(st.sampled_from([2, 3, 4])))
    rows.append({"table": "out", "row": 0, "ts": model.fmt_ts(sell_us, 0), "ex": acc[0], "ho": acc[1], "type": "sell", "price": gen.units_to_str(draw(st.integers(100, 900)) * gen.UNIT), "out": gen.units_to_str(take), "fee": "0", "uid": "sell-a"})
    held -= take
    units = draw(st.integers(500, 3000)) * (gen.UNIT // 1000)
    fee_units = max(1, units // 200)
    price = draw(st.integers(400, 900)) * gen.UNIT
    fee_fiat = model.F(gen.units_to_str(fee_units)) * model.F(gen.units_to_str(price))
    rows.append({"table": "in", "row": 0, "ts": model.fmt_ts(buy_us, 0), "ex": acc[0], "ho": acc[1], "type": "buy", "price": gen.units_to_str(price), "crypto_in": gen.units_to_str(units), "fiat_fee": gen._frac_to_str(fee_fiat), "uid": "buy-b"})
    in_row_index = len(rows) - 1
    rows.append({"table": "out", "row": -1, "ts": model.fmt_ts(buy_us, 0), "ex": acc[0], "ho": acc[1], "type": "fee", "price": gen.units_to_str(price), "out": "0", "fee": gen.units_to_str(fee_units), "uid": "buy-b", "artificial_for": None})
    held += units - fee_units
    later = buy_us + draw(st.integers(1, 200)) * gen.DAY_US
    rows.append({"table": "out", "row": 0, "ts": model.fmt_ts(later, 0), "ex": acc[0], "ho": acc[1], "type": draw(st.sampled_from(["sell", "gift"])), "price": gen.units_to_str(draw(st.integers(100, 900)) * gen.UNIT), "out": gen.units_to_str(max(1, held // 2)), "fee": "0", "uid": "sell-c"})
    number = cfg.first_row
    for row in rows:
        if row["row"] == 0:
            row["row"] = number
            number += 1
    rows[in_row_index + 1]["artificial_for"] = rows[in_row_index]["row"]
    return {"asset": cfg.asset, "exchanges": [acc[0]], "holders": [acc[1]], "rows": rows}


@st.composite
def _tied_fills(draw: Any, cfg: gen.GenCfg) -> Dict[str, Any]:
    """Two fills of one order (identical timestamp, two accounts) as the last acquisitions, laid out so that they sit on sheet
    rows 9|10 or 99|100, followed by disposals that need both: every lot acquired at or before a disposal must be available to it,
    whatever the row numbers look like as text."""
    accounts = [(gen.EXCHANGE_NAMES[0], gen.HOLDER_NAMES[0]), (gen.EXCHANGE_NAMES[1], gen.HOLDER_NAMES[0])]
    us = gen._year_start_us(draw(st.integers(2016, 2021))) + draw(st.integers(0, 300)) * gen.DAY_US
    k = draw(st.integers(0, 5))
    rows: List[Dict[str, Any]] = []
    held = {accounts[0]: 0, accounts[1]: 0}
    for i in range(k):
        acc = accounts[i % 2]
        units = draw(st.integers(1, 3000)) * (gen.UNIT // 1000)
        rows.append({"table": "in", "row": 0, "ts": model.fmt_ts(us, 0), "ex": acc[0], "ho": acc[1], "type": "buy", "price": gen.units_to_str(draw(st.integers(1, 900)) * gen.UNIT), "crypto_in": gen.units_to_str(units), "uid": f"b{i}"})
        held[acc] += units
        us += draw(st.integers(1, 40)) * gen.DAY_US
    for j, acc in enumerate(accounts):  # the tied pair
        units = draw(st.integers(1, 3000)) * (gen.UNIT // 1000)
        rows.append({"table": "in", "row": 0, "ts": model.fmt_ts(us, 0), "ex": acc[0], "ho": acc[1], "type": "buy", "price": gen.units_to_str(draw(st.integers(1, 900)) * gen.UNIT), "crypto_in": gen.units_to_str(units), "uid": f"fill{j}"})
        held[acc] += units
    for j, acc in enumerate(accounts):  # everything is sold again
        us += draw(st.integers(1, 200)) * gen.DAY_US
        rows.append({"table": "out", "row": 0, "ts": model.fmt_ts(us, 0), "ex": acc[0], "ho": acc[1], "type": draw(st.sampled_from(["sell", "gift"])), "price": gen.units_to_str(draw(st.integers(1, 900)) * gen.UNIT), "out": gen.units_to_str(held[acc]), "fee": "0", "uid": f"s{j}"})
    for i, row in enumerate(rows):
        row["row"] = cfg.first_row + i
    # first data row of the IN table = first_blank + 3; the pair occupies positions k and k + 1 of it
    target = draw(st.sampled_from([9, 9, 99]))
    return {"asset": cfg.asset, "exchanges": [a[0] for a in accounts], "holders": [accounts[0][1]], "rows": rows, "layout_hint": {"in_first": True, "first_blank": target - 3 - k}}


@st.composite
def _dust_on_big_lot(draw: Any, cfg: gen.GenCfg) -> Dict[str, Any]:
    """A short single-account history in which a large holding gives up a sliver only: 1-3 small lots, then a lot of hundreds of
    units, then one disposal of everything the small lots hold plus 1e-11 .. 1e-9.  Under FIFO (and under HIFO / LOFO when the
    big lot ranks last) the big lot's sold percentage is below rp2's 13-decimal resolution although it *is* consumed."""
    ex, ho = gen.EXCHANGE_NAMES[0], gen.HOLDER_NAMES[0]
    us = gen._year_start_us(draw(st.integers(2016, 2021))) + draw(st.integers(0, 300)) * gen.DAY_US
    rows: List[Dict[str, Any]] = []
    small_total = 0
    row_id = cfg.first_row
    for i in range(draw(st.integers(1, 3))):
        units = draw(st.integers(1, 5000)) * (gen.UNIT // 1000)
        small_total += units
        rows.append({"table": "in", "row": row_id, "ts": model.fmt_ts(us, 0), "ex": ex, "ho": ho, "type": draw(st.sampled_from(["buy", "buy", "interest", "gift"])), "price": gen.units_to_str(draw(st.integers(1, 900)) * gen.UNIT), "crypto_in": gen.units_to_str(units), "uid": f"u{i}"})
        row_id += 1
        us += draw(st.integers(1, 40)) * gen.DAY_US
    big = draw(st.integers(200, 3000)) * gen.UNIT
    big_price = draw(st.sampled_from([gen.UNIT // 100, 1000 * gen.UNIT]))  # far below / above the small lots: last for HIFO resp. LOFO
    rows.append({"table": "in", "row": row_id, "ts": model.fmt_ts(us, 0), "ex": ex, "ho": ho, "type": "buy", "price": gen.units_to_str(big_price), "crypto_in": gen.units_to_str(big), "uid": "big"})
    row_id += 1
    us += draw(st.integers(1, 400)) * gen.DAY_US
    sliver = draw(st.sampled_from([1, 1, 3, 50, 100]))
    rows.append({"table": "out", "row": row_id, "ts": model.fmt_ts(us, 0), "ex": ex, "ho": ho, "type": draw(st.sampled_from(["sell", "gift", "lost"])), "price": gen.units_to_str(draw(st.integers(1, 900)) * gen.UNIT), "out": gen.units_to_str(small_total + sliver), "fee": "0", "uid": "sliver"})
    return {"asset": cfg.asset, "exchanges": [ex], "holders": [ho], "rows": rows}


@st.composite
def file_case(
    draw: Any,
    countries: Tuple[str, ...] = ("us",),
    max_assets: int = 3,
    hist: Optional[gen.GenCfg] = None,
    min_assets: int = 1,
    windows: bool = True,
    shuffle_rows: bool = True,
    allow_from: bool = True,
    schedules: bool = True,
    langs: bool = True,
    force_all_types: bool = False,
    flavours: Tuple[str, ...] = ("mixed",),
    single_entry_schedules: bool = False,
    force_window: bool = False,
    schedule_weight: int = 1,
    numeric_uids: bool = False,
) -> Dict[str, Any]:
    hist = hist or gen.GenCfg(min_steps=3, max_steps=12, max_exchanges=3, max_holders=2)
    country = draw(st.sampled_from(countries))
    n_assets = draw(st.integers(min_assets, max_assets))
    names = draw(st.permutations(ASSETS))[:n_assets]
    exchanges = gen.EXCHANGE_NAMES[: hist.max_exchanges]
    holders = gen.HOLDER_NAMES[: hist.max_holders]
    assets: Dict[str, Any] = {}
    uid = 0
    all_txs: List[model.Tx] = []
    for name in names:
        flavour = draw(st.sampled_from(flavours))
        overrides: Dict[str, Any] = {"asset": name, "force_type_cycle": force_all_types or hist.force_type_cycle}
        if flavour == "income_only":
            overrides.update(in_types=model.EARN_TYPES, ops=("in",), crypto_fee_in=False)
        elif flavour == "buy_only":
            overrides.update(in_types=("buy",), ops=("in",))
        elif flavour == "transfer_heavy":
            overrides.update(ops=("in", "intra", "intra", "out"))
        elif flavour == "disposal_years":
            overrides.update(ops=("out", "out", "out", "in"), tie_prob=0.05)
        cfg = gen.GenCfg(**{**hist.__dict__, **overrides})
        special = {"dust_on_big_lot": _dust_on_big_lot, "tied_fills": _tied_fills, "sparse_years": _sparse_years, "new_year_offsets": _new_year_offsets, "same_second_trades": _same_second_trades}
        generated = draw(special[flavour](cfg)) if flavour in special else draw(gen.history(cfg))
        if flavour == "fully_sold":
            generated["rows"].extend(_liquidation_rows(draw, generated["rows"]))
        raw = to_raw(generated["rows"])
        for row in raw:
            uid += 1
            row["uid"] = f"{name.lower()}-{uid:03d}"
            if numeric_uids and draw(st.integers(0, 3)) == 0:
                # an order number typed into the cell as a number (read back by ezodf as a float)
                row["uid"] = str(7345000 + uid)
                row["uid_numeric"] = True
            note = draw(st.sampled_from(NOTES))
            if note:
                row["notes"] = note
        all_txs.extend(model.make_txs([dict(r, row=i) for i, r in enumerate(post_rows([dict(r, row=i + 3) for i, r in enumerate(raw)])[0])]))
        tables: List[Tuple[str, List[Dict[str, Any]]]] = []
        hint = generated.get("layout_hint") or {}
        order = ["in", "out", "intra"] if hint.get("in_first") else draw(st.permutations(["in", "out", "intra"]))
        for table in order:
            rows = [r for r in raw if r["table"] == table]
            if shuffle_rows and len(rows) > 1 and not hint and draw(st.booleans()):
                rows = list(draw(st.permutations(rows)))
            if rows or table == "in" or draw(st.booleans()):
                tables.append((table, rows))
        assets[name] = {"tables": [[t, rows] for t, rows in tables], "blank": draw(st.integers(0, 2)), "first_blank": hint["first_blank"] if "first_blank" in hint else draw(st.sampled_from([0, 0, 1, 1, 4, 5, 6, 7, 94, 95, 96])), "trailing_blank": draw(st.sampled_from([0, 0, 1, 3]))}
    case: Dict[str, Any] = {
        "country": country,
        "exchanges": exchanges,
        "holders": holders,
        "assets": assets,
        "layout": None,
        "allow_negative": False,
        "asset_opt": None,
        "lang": None,
        "method": None,
        "schedule": None,
        "from": None,
        "to": None,
    }
    if country == "generic":
        case["long_term_days"] = draw(st.sampled_from([0, 30, 365, 366]))
    methods = COUNTRY_METHODS[country]
    kind = min(3, draw(st.integers(0, 2 + schedule_weight)))
    if kind == 0:
        pass  # country default
    elif kind in (1, 2) or not schedules or len(methods) == 1:
        case["method"] = draw(st.sampled_from(methods))
    else:
        sched = draw(gen.schedule(all_txs, methods=methods, multi_prob=1.0))
        if single_entry_schedules and draw(st.integers(0, 2)) == 0:
            # one-entry [accounting_methods] section whose year is <= the first year of the history (R10)
            first_year = min(t.year for t in all_txs)
            sched = {str(draw(st.sampled_from([1970, first_year - 1, first_year]))): draw(st.sampled_from(methods))}
            case["schedule"] = sched
        else:
            # a one-entry section keyed by 1970 is equivalent to -m; keep genuinely multi-entry ones
            case["schedule"] = sched if len(sched) > 1 else None
            if case["schedule"] is None:
                case["method"] = list(sched.values())[0]
    if langs and draw(st.booleans()):
        case["lang"] = draw(st.sampled_from(COUNTRY_LANGS[country]))
    if country == "jp" and case["lang"] is None:
        case["lang"] = draw(st.sampled_from(COUNTRY_LANGS["jp"]))
    if windows:
        wkind = draw(st.integers(1, 4)) if force_window else draw(st.integers(0, 5))
        first = draw(gen.window_date(all_txs))
        second = draw(gen.window_date(all_txs))
        if wkind == 1 and allow_from:
            case["from"] = first
        elif wkind == 2:
            case["to"] = first
        elif wkind == 3 and allow_from and country != "jp":
            case["from"], case["to"] = min(first, second), max(first, second)
        elif wkind == 4 and allow_from and country != "jp":
            case["from"] = case["to"] = first
        if case.get("schedule") and len(case["schedule"]) > 1 and case.get("to") and draw(st.booleans()):
            # a to-date inside a year in which the schedule switches method (the year's own method must still be the one used)
            year = draw(st.sampled_from(sorted(case["schedule"])[1:]))
            case["to"] = f"{year}-{draw(st.sampled_from(['03-15', '06-30', '12-31']))}"
            if case.get("from") and case["from"] > case["to"]:
                case["from"] = None
    return case
