"""Reference model of the RP2 semantics stated by properties C01-C10.

Written from the property statements and docs/, in exact arithmetic (fractions.Fraction) and integer
microseconds since the epoch.  Nothing in this module imports rp2 or dateutil: it works on the plain
"case" dictionaries produced by rp2v.gen (rows are dictionaries of strings).

Row dictionaries ("post-parse" transactions, i.e. what parse_ods hands to the engine):
  common : table ("in"|"out"|"intra"), row (int, unique per asset), ts (str), price (str), uid (str)
  in     : ex, ho, type, crypto_in, [fiat_fee], [fiat_in_no_fee], [fiat_in_with_fee]
  out    : ex, ho, type, out (crypto_out_no_fee), fee (crypto_fee), [out_with_fee], [fiat_out_no_fee], [fiat_fee]
  intra  : from_ex, from_ho, to_ex, to_ho, sent, received
"""
from __future__ import annotations

import re
from dataclasses import dataclass, field
from datetime import date, timedelta
from fractions import Fraction
from typing import Any, Dict, List, Optional, Tuple

EARN_TYPES = ("airdrop", "hardfork", "income", "interest", "mining", "staking", "wages")
IN_NON_EARN_TYPES = ("buy", "gift", "donate")
IN_TYPES = IN_NON_EARN_TYPES + EARN_TYPES
OUT_TYPES = ("sell", "gift", "donate", "fee", "lost", "staking")
ALL_TYPES = ("airdrop", "buy", "donate", "fee", "gift", "hardfork", "income", "interest", "lost", "mining", "move", "sell", "staking", "wages")
METHODS = ("fifo", "lifo", "hifo", "lofo")

_TS_RE = re.compile(r"^(\d{4})-(\d{2})-(\d{2})[ T](\d{2}):(\d{2}):(\d{2})(?:\.(\d{1,6}))?\s*([+-])(\d{2}):?(\d{2})$")
_EPOCH = date(1970, 1, 1)
US_PER_DAY = 86_400 * 1_000_000


def F(value: Any) -> Fraction:
    """Exact conversion of a decimal string (or int) to a Fraction."""
    if isinstance(value, Fraction):
        return value
    return Fraction(str(value))


def parse_ts(text: str) -> Tuple[int, int]:
    """'YYYY-MM-DD HH:MM:SS[.ffffff]+HH:MM' -> (UTC microseconds since epoch, offset in minutes)."""
    match = _TS_RE.match(text.strip())
    if not match:
        raise ValueError(f"model.parse_ts: unsupported timestamp {text!r}")
    year, month, day, hour, minute, second = (int(match.group(i)) for i in range(1, 7))
    micro = int((match.group(7) or "0").ljust(6, "0"))
    sign = 1 if match.group(8) == "+" else -1
    offset = sign * (int(match.group(9)) * 60 + int(match.group(10)))
    days = (date(year, month, day) - _EPOCH).days
    local_us = ((days * 24 + hour) * 60 + minute) * 60 * 1_000_000 + second * 1_000_000 + micro
    return local_us - offset * 60 * 1_000_000, offset


def local_date(utc_us: int, offset_min: int) -> date:
    local_us = utc_us + offset_min * 60 * 1_000_000
    return _EPOCH + timedelta(days=local_us // US_PER_DAY)


def fmt_ts(utc_us: int, offset_min: int) -> str:
    """Inverse of parse_ts (canonical text form used by the generators)."""
    local_us = utc_us + offset_min * 60 * 1_000_000
    days, rem = divmod(local_us, US_PER_DAY)
    day = _EPOCH + timedelta(days=days)
    seconds, micro = divmod(rem, 1_000_000)
    hour, rem2 = divmod(seconds, 3600)
    minute, second = divmod(rem2, 60)
    sign = "+" if offset_min >= 0 else "-"
    off_h, off_m = divmod(abs(offset_min), 60)
    frac = f".{micro:06d}" if micro else ""
    return f"{day.year:04d}-{day.month:02d}-{day.day:02d} {hour:02d}:{minute:02d}:{second:02d}{frac}{sign}{off_h:02d}:{off_m:02d}"


@dataclass
class Tx:
    table: str
    row: int
    ts: str
    us: int  # instant, UTC microseconds
    off: int  # offset minutes
    day: date  # own local calendar date
    type: str
    price: Fraction
    uid: str
    raw: Dict[str, Any]
    # in
    ex: str = ""
    ho: str = ""
    crypto_in: Fraction = Fraction(0)
    fiat_fee: Fraction = Fraction(0)
    fiat_in_no_fee: Fraction = Fraction(0)
    fiat_in_with_fee: Fraction = Fraction(0)
    has_fee: bool = False
    # out
    out: Fraction = Fraction(0)
    fee: Fraction = Fraction(0)
    out_with_fee: Fraction = Fraction(0)
    fiat_out_no_fee: Fraction = Fraction(0)
    # intra
    from_ex: str = ""
    from_ho: str = ""
    to_ex: str = ""
    to_ho: str = ""
    sent: Fraction = Fraction(0)
    received: Fraction = Fraction(0)

    @property
    def year(self) -> int:
        return self.day.year

    @property
    def is_lot(self) -> bool:
        return self.table == "in"

    @property
    def is_earn(self) -> bool:
        return self.table == "in" and self.type in EARN_TYPES

    @property
    def is_taxable(self) -> bool:
        """C03: earn-typed acquisitions, every out-transaction, transfers with a non-zero fee."""
        if self.table == "in":
            return self.is_earn
        if self.table == "out":
            return True
        return self.sent > self.received

    @property
    def leaving(self) -> Fraction:
        """Crypto amount that a taxable event takes out of lots (0 for income events)."""
        if self.table == "out":
            return self.out_with_fee
        if self.table == "intra":
            return self.sent - self.received
        return Fraction(0)

    @property
    def event_amount(self) -> Fraction:
        """Total crypto amount of the taxable event (the denominator for pro-rating, C04)."""
        if self.table == "in":
            return self.crypto_in
        return self.leaving

    @property
    def taxable_fiat(self) -> Fraction:
        """C04: sale value excluding fee; fee value for fee-only events and transfer fees; fiat value for income."""
        if self.table == "in":
            return self.fiat_in_with_fee
        if self.table == "out":
            return self.fiat_fee if self.type == "fee" else self.fiat_out_no_fee
        return (self.sent - self.received) * self.price

    @property
    def lot_cost(self) -> Fraction:
        """C04: lot's fiat cost including acquisition fee."""
        return self.fiat_in_with_fee

    @property
    def key(self) -> str:
        return f"{self.table}:{self.row}"


def make_tx(raw: Dict[str, Any]) -> Tx:
    us, off = parse_ts(raw["ts"])
    table = raw["table"]
    price = F(raw.get("price") or "0")
    tx = Tx(
        table=table,
        row=int(raw["row"]),
        ts=raw["ts"],
        us=us,
        off=off,
        day=local_date(us, off),
        type=("move" if table == "intra" else raw["type"].lower()),
        price=price,
        uid=str(raw.get("uid", "")),
        raw=raw,
    )
    if table == "in":
        tx.ex, tx.ho = raw["ex"], raw["ho"]
        tx.crypto_in = F(raw["crypto_in"])
        tx.fiat_fee = F(raw["fiat_fee"]) if raw.get("fiat_fee") is not None else Fraction(0)
        tx.has_fee = tx.fiat_fee > 0
        tx.fiat_in_no_fee = F(raw["fiat_in_no_fee"]) if raw.get("fiat_in_no_fee") is not None else tx.crypto_in * price
        tx.fiat_in_with_fee = F(raw["fiat_in_with_fee"]) if raw.get("fiat_in_with_fee") is not None else tx.fiat_in_no_fee + tx.fiat_fee
    elif table == "out":
        tx.ex, tx.ho = raw["ex"], raw["ho"]
        tx.out = F(raw["out"])
        tx.fee = F(raw.get("fee") or "0")
        tx.out_with_fee = F(raw["out_with_fee"]) if raw.get("out_with_fee") is not None else tx.out + tx.fee
        tx.fiat_out_no_fee = F(raw["fiat_out_no_fee"]) if raw.get("fiat_out_no_fee") is not None else tx.out * price
        tx.fiat_fee = F(raw["fiat_fee"]) if raw.get("fiat_fee") is not None else tx.fee * price
    elif table == "intra":
        tx.from_ex, tx.from_ho, tx.to_ex, tx.to_ho = raw["from_ex"], raw["from_ho"], raw["to_ex"], raw["to_ho"]
        tx.sent = F(raw["sent"])
        tx.received = F(raw["received"])
    else:
        raise ValueError(f"unknown table {table!r}")
    return tx


def make_txs(rows: List[Dict[str, Any]]) -> List[Tx]:
    return [make_tx(r) for r in rows]


def method_for_year(schedule: Dict[str, str], year: int) -> str:
    """Method in force: entry with the greatest year <= the given year (C01)."""
    best: Optional[int] = None
    for key in schedule:
        k = int(key)
        if k <= year and (best is None or k > best):
            best = k
    if best is None:
        raise ValueError(f"no accounting method for year {year} in {schedule}")
    return schedule[str(best)]


def primary_key(method: str, lot: Tx) -> Fraction:
    """Primary ranking criterion only (ties are not decided by the statement): smaller is better."""
    if method == "fifo":
        return Fraction(lot.us)
    if method == "lifo":
        return Fraction(-lot.us)
    if method == "hifo":
        return -lot.price
    if method == "lofo":
        return lot.price
    raise ValueError(method)


def parse_date(text: Optional[str]) -> Optional[date]:
    if text is None:
        return None
    year, month, day = (int(p) for p in text.split("-"))
    return date(year, month, day)


def in_window(tx_day: date, from_date: Optional[date], to_date: Optional[date]) -> bool:
    if from_date is not None and tx_day < from_date:
        return False
    if to_date is not None and tx_day > to_date:
        return False
    return True


def is_date_monotone(txs: List[Tx]) -> bool:
    """R3: local dates non-decreasing in instant order (for equal instants any order must work)."""
    ordered = sorted(txs, key=lambda t: (t.us, t.day))
    for a, b in zip(ordered, ordered[1:]):
        if b.day < a.day:
            return False
    # equal instants with different local dates are non-monotone under some tie order
    by_us: Dict[int, set] = {}
    for t in txs:
        by_us.setdefault(t.us, set()).add(t.day)
    prev_max: Optional[date] = None
    for us in sorted(by_us):
        days = by_us[us]
        if prev_max is not None and min(days) < prev_max:
            return False
        if len(days) > 1:
            return False
        prev_max = max(days)
    return True


def overspend_somewhere(txs: List[Tx]) -> bool:
    """C02 verdict: exists an instant t with disposed(<=t) > acquired(<=t) (account-blind)."""
    deltas: Dict[int, Fraction] = {}
    for t in txs:
        if t.table == "in":
            deltas[t.us] = deltas.get(t.us, Fraction(0)) + t.crypto_in
        elif t.is_taxable:
            deltas[t.us] = deltas.get(t.us, Fraction(0)) - t.leaving
    total = Fraction(0)
    for us in sorted(deltas):
        total += deltas[us]
        if total < 0:
            return True
    return False


@dataclass
class AccountFlows:
    acquired: Fraction = Fraction(0)
    sent: Fraction = Fraction(0)
    received: Fraction = Fraction(0)

    @property
    def final(self) -> Fraction:
        return self.acquired + self.received - self.sent


def account_flows(txs: List[Tx], to_date: Optional[date]) -> Dict[Tuple[str, str], AccountFlows]:
    """C07: per (exchange, holder) sums over the account's transactions with own date <= to_date."""
    result: Dict[Tuple[str, str], AccountFlows] = {}
    for t in txs:
        if to_date is not None and t.day > to_date:
            continue
        if t.table == "in":
            result.setdefault((t.ex, t.ho), AccountFlows()).acquired += t.crypto_in
        elif t.table == "out":
            result.setdefault((t.ex, t.ho), AccountFlows()).sent += t.out + t.fee
        else:
            result.setdefault((t.from_ex, t.from_ho), AccountFlows()).sent += t.sent
            result.setdefault((t.to_ex, t.to_ho), AccountFlows()).received += t.received
    return result


TOLERANCE = Fraction(1, 10**10)


def overdraft_verdict(txs: List[Tx]) -> Tuple[str, Optional[Tuple[str, str]]]:
    """C08 verdict from the rows, independent of the processing order inside an instant.

    'reject'  : some account's end-of-instant balance < -1e-10 (then the last debit of that instant is
                checked below that value under any processing order of the instant).
    'accept'  : no account is below 0 at any point under the most pessimistic order inside each instant
                (acquisitions first -- a same-instant buy+sell is never an overdraft -- then all debits,
                then transfer credits).
    'accept_same_instant': every end-of-instant balance is >= 0 (so "no account ever goes negative" at any
                moment in time), but some debit is covered only thanks to a transfer credited at the very
                same instant; `who` is that account.
    'undecided': the tolerance band [-1e-10, 0).
    """
    by_us: Dict[int, List[Tx]] = {}
    for t in txs:
        by_us.setdefault(t.us, []).append(t)
    bal: Dict[Tuple[str, str], Fraction] = {}
    verdict = "accept"
    who: Optional[Tuple[str, str]] = None
    for us in sorted(by_us):
        group = by_us[us]
        credits_in: Dict[Tuple[str, str], Fraction] = {}
        credits_tr: Dict[Tuple[str, str], Fraction] = {}
        debits: Dict[Tuple[str, str], Fraction] = {}
        for t in group:
            if t.table == "in":
                credits_in[(t.ex, t.ho)] = credits_in.get((t.ex, t.ho), Fraction(0)) + t.crypto_in
            elif t.table == "out":
                debits[(t.ex, t.ho)] = debits.get((t.ex, t.ho), Fraction(0)) + t.out + t.fee
            else:
                debits[(t.from_ex, t.from_ho)] = debits.get((t.from_ex, t.from_ho), Fraction(0)) + t.sent
                credits_tr[(t.to_ex, t.to_ho)] = credits_tr.get((t.to_ex, t.to_ho), Fraction(0)) + t.received
        accounts = set(credits_in) | set(credits_tr) | set(debits)
        for acc in sorted(accounts):
            start = bal.get(acc, Fraction(0))
            pessimistic = start + credits_in.get(acc, Fraction(0)) - debits.get(acc, Fraction(0))
            end = pessimistic + credits_tr.get(acc, Fraction(0))
            bal[acc] = end
            if acc in debits:
                if end < -TOLERANCE:
                    return "reject", acc
                if end < 0:
                    if verdict != "undecided":
                        verdict, who = "undecided", acc
                elif pessimistic < 0 and verdict == "accept":
                    verdict, who = "accept_same_instant", acc
    return verdict, who


def same_instant_transfer_chain_accounts(txs: List[Tx]) -> List[Tuple[str, str]]:
    """Accounts that, at one instant, are debited by a transfer and credited by another transfer, the debit being covered only
    thanks to that credit (A->X and X->B with identical timestamps): whether rp2 sees X negative depends on the order in which
    the two same-instant transfers are listed (finding F12)."""
    by_us: Dict[int, List[Tx]] = {}
    for t in txs:
        by_us.setdefault(t.us, []).append(t)
    bal: Dict[Tuple[str, str], Fraction] = {}
    result: List[Tuple[str, str]] = []
    for us in sorted(by_us):
        group = by_us[us]
        delta: Dict[Tuple[str, str], Fraction] = {}
        non_transfer: Dict[Tuple[str, str], Fraction] = {}
        tr_debit: Dict[Tuple[str, str], Fraction] = {}
        tr_credit: Dict[Tuple[str, str], Fraction] = {}
        for t in group:
            if t.table == "in":
                non_transfer[(t.ex, t.ho)] = non_transfer.get((t.ex, t.ho), Fraction(0)) + t.crypto_in
            elif t.table == "out":
                pass  # rp2 applies same-instant OUT debits after every transfer of the instant
            elif (t.from_ex, t.from_ho) != (t.to_ex, t.to_ho):
                tr_debit[(t.from_ex, t.from_ho)] = tr_debit.get((t.from_ex, t.from_ho), Fraction(0)) + t.sent
                tr_credit[(t.to_ex, t.to_ho)] = tr_credit.get((t.to_ex, t.to_ho), Fraction(0)) + t.received
        for acc in set(tr_debit) & set(tr_credit):
            if bal.get(acc, Fraction(0)) + non_transfer.get(acc, Fraction(0)) - tr_debit[acc] < 0:
                result.append(acc)
        for t in group:
            if t.table == "in":
                delta[(t.ex, t.ho)] = delta.get((t.ex, t.ho), Fraction(0)) + t.crypto_in
            elif t.table == "out":
                delta[(t.ex, t.ho)] = delta.get((t.ex, t.ho), Fraction(0)) - t.out - t.fee
            else:
                delta[(t.from_ex, t.from_ho)] = delta.get((t.from_ex, t.from_ho), Fraction(0)) - t.sent
                delta[(t.to_ex, t.to_ho)] = delta.get((t.to_ex, t.to_ho), Fraction(0)) + t.received
        for acc, change in delta.items():
            bal[acc] = bal.get(acc, Fraction(0)) + change
    return result
