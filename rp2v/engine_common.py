"""Helpers shared by the engine-layer checks (C01-C10)."""
from __future__ import annotations

from fractions import Fraction
from typing import Any, Dict, List, Optional, Set, Tuple

from hypothesis import strategies as st

from . import gen, model
from .runner import Outcome

COUNTRY_METHODS = {
    "us": model.METHODS,
    "generic": model.METHODS,
    "es": ("fifo",),
    "ie": ("fifo",),
    "jp": ("fifo",),
}


@st.composite
def engine_case(draw: Any, cfg: gen.GenCfg, methods: Tuple[str, ...] = model.METHODS, multi_prob: float = 0.4, country: str = "us", allow_negative: bool = True) -> Dict[str, Any]:
    """history + accounting schedule (+ country); the case is fully self-describing."""
    case = draw(gen.history(cfg))
    txs = model.make_txs(case["rows"])
    case["schedule"] = draw(gen.schedule(txs, methods=methods, multi_prob=multi_prob))
    case["country"] = country
    case["allow_negative"] = allow_negative
    return case


def history_classes(txs: List[model.Tx], schedule: Dict[str, str]) -> Set[str]:
    """Structural classes of a history, used for the evidence distribution."""
    classes: Set[str] = set()
    instants = [t.us for t in txs]
    if len(set(instants)) < len(instants):
        classes.add("tie_instants")
    lots = [t for t in txs if t.is_lot]
    prices = [t.price for t in lots]
    if len(set(prices)) < len(prices):
        classes.add("tie_lot_price")
    if len({t.off for t in txs}) > 1:
        classes.add("mixed_offsets")
    for t in txs:
        utc_year = model.local_date(t.us, 0).year
        if utc_year != t.year:
            classes.add("local_year_ne_utc_year")
            break
    if any(t.is_earn for t in txs):
        classes.add("has_income")
    if any(t.table == "intra" for t in txs):
        classes.add("has_transfer")
    if any(t.row < 0 for t in txs):
        classes.add("crypto_fee_acquisition")
    if len(schedule) > 1:
        classes.add("schedule_multi")
    for m in set(schedule.values()):
        classes.add(f"method_{m}")
    if len({t.year for t in txs}) > 1:
        classes.add("multi_year")
    return classes


def rel_close(a: Fraction, b: Fraction, scale: Fraction, rel: Fraction) -> bool:
    return abs(a - b) <= rel * scale


def index_rows(txs: List[model.Tx]) -> Dict[int, model.Tx]:
    return {t.row: t for t in txs}
