"""Helpers shared by the engine-layer checks (C01-C10)."""
from __future__ import annotations

from fractions import Fraction
from typing import Any, Dict, List, Optional, Set, Tuple

from hypothesis import strategies as st

from . import gen, model
from .runner import Outcome

COUNTRY_METHODS = {
    "us": model.METHODS,
    "generic": model.METHODS,
    "es": ("fifo",),
    "ie": ("fifo",),
    "jp": ("fifo",),
}


@st.composite
def engine_case(draw: Any, cfg: gen.GenCfg, methods: Tuple[str, ...] = model.METHODS, multi_prob: float = 0.4, country: str = "us", allow_negative: bool = True) -> Dict[str, Any]:
    """history + accounting schedule (+ country); the case is fully self-describing."""
    case = draw(gen.history(cfg))
    txs = model.make_txs(case["rows"])
    case["schedule"] = draw(gen.schedule(txs, methods=methods, multi_prob=multi_prob))
    case["country"] = country
    case["allow_negative"] = allow_negative
    return case


def history_classes(txs: List[model.Tx], schedule: Dict[str, str]) -> Set[str]:
    """Structural classes of a history, used for the evidence distribution."""
    classes: Set[str] = set()
    instants = [t.us for t in txs]
    if len(set(instants)) < len(instants):
        classes.add("tie_instants")
    lots = [t for t in txs if t.is_lot]
    prices = [t.price for t in lots]
    if len(set(prices)) < len(prices):
        classes.add("tie_lot_price")
    if len({t.off for t in txs}) > 1:
        classes.add("mixed_offsets")
    for t in txs:
        utc_year = model.local_date(t.us, 0).year
        if utc_year != t.year:
            classes.add("local_year_ne_utc_year")
            break
    if any(t.is_earn for t in txs):
        classes.add("has_income")
    if any(t.table == "intra" for t in txs):
        classes.add("has_transfer")
    if any(t.row < 0 for t in txs):
        classes.add("crypto_fee_acquisition")
    if len(schedule) > 1:
        classes.add("schedule_multi")
    for m in set(schedule.values()):
        classes.add(f"method_{m}")
    if len({t.year for t in txs}) > 1:
        classes.add("multi_year")
    return classes


def rel_close(a: Fraction, b: Fraction, scale: Fraction, rel: Fraction) -> bool:
    return abs(a - b) <= rel * scale


def index_rows(txs: List[model.Tx]) -> Dict[int, model.Tx]:
    return {t.row: t for t in txs}


def account_of_debit(row: Dict[str, Any]) -> Tuple[str, str]:
    if row["table"] == "intra":
        return (row["from_ex"], row["from_ho"])
    return (row["ex"], row["ho"])


def end_of_instant_balance(txs: List[model.Tx], account: Tuple[str, str], us: int) -> Fraction:
    bal = Fraction(0)
    for t in txs:
        if t.us > us:
            continue
        if t.table == "in" and (t.ex, t.ho) == account:
            bal += t.crypto_in
        elif t.table == "out" and (t.ex, t.ho) == account:
            bal -= t.out + t.fee
        elif t.table == "intra":
            if (t.from_ex, t.from_ho) == account:
                bal -= t.sent
            if (t.to_ex, t.to_ho) == account:
                bal += t.received
    return bal


@st.composite
def inject_overdraft(draw: Any, case: Dict[str, Any], depths: Tuple[str, ...] = ("0.00000000001", "0.00000000009", "0.0000000002", "0.000000001", "3")) -> Optional[Dict[str, Any]]:
    """Enlarge one debit so that its account ends that instant at -depth; optionally refill later.  Returns a description
    of what was done (or None when the history has no debit)."""
    rows = case["rows"]
    txs = model.make_txs(rows)
    targets = [i for i, r in enumerate(rows) if r["row"] >= 0 and r["table"] in ("out", "intra")]
    if not targets:
        return None
    i = draw(st.sampled_from(targets))
    row = dict(rows[i])
    account = account_of_debit(row)
    depth = model.F(draw(st.sampled_from(depths)))
    extra = end_of_instant_balance(txs, account, txs[i].us) + depth
    if extra <= 0:
        return None
    if row["table"] == "out":
        field = "fee" if row["type"] == "fee" else "out"
        row[field] = gen._frac_to_str(model.F(row[field]) + extra)
        if "out_with_fee" in row:
            row["out_with_fee"] = gen._frac_to_str(model.F(row["out"]) + model.F(row["fee"]))
    else:
        row["sent"] = gen._frac_to_str(model.F(row["sent"]) + extra)
        row["received"] = gen._frac_to_str(model.F(row["received"]) + extra)
    rows[i] = row
    info = {"row": row["row"], "account": list(account), "depth": str(depth), "refilled": False}
    if draw(st.booleans()):
        last = max(t.us for t in txs)
        rows.append(
            {
                "table": "in",
                "row": max(t.row for t in txs) + 1,
                "ts": model.fmt_ts(last + draw(st.integers(1, 300)) * gen.DAY_US, txs[-1].off),
                "ex": account[0],
                "ho": account[1],
                "type": "buy",
                "price": "10",
                "crypto_in": gen._frac_to_str(extra * 3 + 1000),
                "uid": "refill",
            }
        )
        info["refilled"] = True
    return info


@st.composite
def permute_row_numbers(draw: Any, case: Dict[str, Any]) -> None:
    """Renumber the (non-artificial) rows with a random permutation, so that sheet order != chronological order."""
    rows = case["rows"]
    positive = [r["row"] for r in rows if r["row"] >= 0]
    shuffled = draw(st.permutations(positive))
    mapping = dict(zip(positive, shuffled))
    for r in rows:
        if r["row"] >= 0:
            r["row"] = mapping[r["row"]]
        if "artificial_for" in r:
            r["artificial_for"] = mapping.get(r["artificial_for"], r["artificial_for"])
