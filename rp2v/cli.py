"""Subprocess driver for the five console entry points (/venv/bin/rp2_<country>, editable install of /repo/src)."""
from __future__ import annotations

import os
import subprocess
import sys
from dataclasses import dataclass, field
from typing import Any, Dict, List, Optional, Sequence

VENV_BIN = os.path.dirname(sys.executable) if os.path.exists(os.path.join(os.path.dirname(sys.executable), "rp2_us")) else "/venv/bin"
COUNTRIES = ("us", "es", "ie", "jp", "generic")
COUNTRY_METHODS = {"us": ("fifo", "hifo", "lifo", "lofo"), "generic": ("fifo", "hifo", "lifo", "lofo"), "es": ("fifo",), "ie": ("fifo",), "jp": ("fifo",)}
COUNTRY_LANGS = {"us": ("en",), "es": ("es",), "ie": ("en_IE",), "jp": ("en", "kl"), "generic": ("en",)}
COUNTRY_DEFAULT_LANG = {"us": "en", "es": "es", "ie": "en_IE", "jp": "ja", "generic": "en"}
COUNTRY_REPORTS = {
    "us": ("open_positions", "rp2_full_report", "tax_report_us"),
    "es": ("open_positions", "rp2_full_report"),
    "ie": ("open_positions", "rp2_full_report", "tax_report_ie"),
    "jp": ("open_positions", "rp2_full_report", "tax_report_jp"),
    "generic": ("open_positions", "rp2_full_report"),
}
AUDIT_WRAPPER = os.path.join(os.path.dirname(os.path.abspath(__file__)), "audit_wrapper.py")


@dataclass
class CliResult:
    rc: int
    out: str
    err: str
    files: List[str] = field(default_factory=list)
    argv: List[str] = field(default_factory=list)

    @property
    def text(self) -> str:
        return self.out + "\n" + self.err


def build_args(
    ini: str,
    ods: str,
    outdir: str,
    method: Optional[str] = None,
    lang: Optional[str] = None,
    from_date: Optional[str] = None,
    to_date: Optional[str] = None,
    allow_negative: bool = False,
    asset: Optional[str] = None,
    prefix: Optional[str] = None,
    extra: Sequence[str] = (),
) -> List[str]:
    args: List[str] = []
    if method:
        args += ["-m", method]
    if lang:
        args += ["-g", lang]
    if from_date:
        args += ["-f", from_date]
    if to_date:
        args += ["-t", to_date]
    if allow_negative:
        args += ["-n"]
    if asset:
        args += ["-a", asset]
    if prefix:
        args += ["-p", prefix]
    args += list(extra)
    args += ["-o", outdir, ini, ods]
    return args


def run_rp2(country: str, args: Sequence[str], cwd: str, outdir: Optional[str] = None, hashseed: str = "0", env_extra: Optional[Dict[str, str]] = None, audit_log: Optional[str] = None, timeout: int = 300) -> CliResult:
    env = dict(os.environ)
    env["PYTHONHASHSEED"] = hashseed
    env["LC_ALL"] = "C.UTF-8"
    env["PYTHONDONTWRITEBYTECODE"] = "1"
    if country == "generic":
        env.setdefault("CURRENCY_CODE", "usd")
        env.setdefault("LONG_TERM_CAPITAL_GAINS", "365")
    if env_extra:
        for key, value in env_extra.items():
            if value is None:
                env.pop(key, None)
            else:
                env[key] = value
    entry = os.path.join(VENV_BIN, f"rp2_{country}")
    if audit_log:
        argv = [sys.executable, AUDIT_WRAPPER, audit_log, country] + list(args)
    else:
        argv = [sys.executable, entry] + list(args)
    proc = subprocess.run(argv, cwd=cwd, env=env, capture_output=True, text=True, timeout=timeout)
    files: List[str] = []
    if outdir and os.path.isdir(outdir):
        files = sorted(os.listdir(outdir))
    return CliResult(proc.returncode, proc.stdout, proc.stderr, files, argv)


def expected_report_names(country: str, method_label: str, prefix: str = "") -> List[str]:
    return sorted(f"{prefix}{method_label}_{name}.ods" for name in COUNTRY_REPORTS[country])


def method_label(method: Optional[str], schedule: Optional[Dict[str, str]], country: str) -> str:
    """Output-file label: the single method, or 'mixed' for a multi-entry schedule."""
    if schedule:
        return list(schedule.values())[0] if len(schedule) == 1 else "mixed"
    return method or "fifo"
