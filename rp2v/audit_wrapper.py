"""Runs an rp2 country entry point under an interpreter audit hook (C18).

usage: python audit_wrapper.py <audit log> <country> [rp2 arguments...]
The hook is installed *before* rp2 (or any of its dependencies) is imported and appends one JSON line per relevant
event: network (socket.*), process creation (subprocess.Popen, os.system, os.exec*, os.posix_spawn, os.fork, pty),
and file-system writes (open with a writing mode, os.remove/rename/mkdir/rmdir/chmod/truncate/symlink/link, shutil.*).
"""
import json
import os
import sys

LOG_PATH = os.path.abspath(sys.argv[1])
COUNTRY = sys.argv[2]
_LOG_FD = os.open(LOG_PATH, os.O_WRONLY | os.O_CREAT | os.O_APPEND, 0o644)

NETWORK_PREFIXES = ("socket.", "ssl.", "http.client.", "urllib.Request", "ftplib.", "smtplib.", "poplib.", "imaplib.", "telnetlib.", "nntplib.")
PROCESS_EVENTS = ("subprocess.Popen", "os.system", "os.exec", "os.posix_spawn", "os.spawn", "os.fork", "os.forkpty", "pty.spawn", "os.startfile", "_posixsubprocess.fork_exec")
FS_EVENTS = ("os.remove", "os.rename", "os.mkdir", "os.rmdir", "os.chmod", "os.chown", "os.truncate", "os.symlink", "os.link", "os.utime", "shutil.", "os.removexattr", "os.setxattr", "tempfile.mkstemp", "tempfile.mkdtemp")


def _emit(record):
    try:
        os.write(_LOG_FD, (json.dumps(record, default=repr) + "\n").encode())
    except Exception:  # pylint: disable=broad-except
        pass


def _hook(event, args):
    if event == "open":
        path, mode, flags = (list(args) + [None, None, None])[:3]
        writing = False
        if isinstance(mode, str):
            writing = any(ch in mode for ch in "wax+")
        elif isinstance(flags, int):
            writing = bool(flags & (os.O_WRONLY | os.O_RDWR | os.O_APPEND | os.O_CREAT | os.O_TRUNC))
        if writing and path != _LOG_FD:
            _emit({"kind": "write", "event": "open", "path": path if isinstance(path, (str, int)) else os.fsdecode(path) if isinstance(path, bytes) else repr(path), "mode": mode, "cwd": os.getcwd()})
        return
    if event.startswith(NETWORK_PREFIXES):
        _emit({"kind": "network", "event": event, "args": [repr(a)[:200] for a in args]})
    elif event.startswith(PROCESS_EVENTS):
        _emit({"kind": "process", "event": event, "args": [repr(a)[:200] for a in args]})
    elif event.startswith(FS_EVENTS):
        paths = [os.fsdecode(a) if isinstance(a, bytes) else a for a in args if isinstance(a, (str, bytes))]
        _emit({"kind": "fs", "event": event, "paths": paths, "cwd": os.getcwd()})


sys.addaudithook(_hook)
_emit({"kind": "start", "cwd": os.getcwd(), "modules_before": sorted(m for m in sys.modules if m.split(".")[0] in ("socket", "ssl", "subprocess", "urllib", "http", "requests"))})

sys.argv = [f"rp2_{COUNTRY}"] + sys.argv[3:]
import importlib  # noqa: E402

_real_import_module = importlib.import_module


def _logged_import_module(name, package=None):
    caller = sys._getframe(1).f_code.co_filename  # pylint: disable=protected-access
    if "/rp2/" in caller and "/rp2v/" not in caller:
        _emit({"kind": "dynamic_import", "name": name, "caller": caller})
    return _real_import_module(name, package)


importlib.import_module = _logged_import_module
from importlib import import_module  # noqa: E402

module = import_module(f"rp2.plugin.country.{COUNTRY}")
try:
    module.rp2_entry()
    code = 0
except SystemExit as exc:
    code = exc.code if isinstance(exc.code, int) else (0 if exc.code is None else 1)
_emit({"kind": "end", "code": code})
sys.exit(code)
