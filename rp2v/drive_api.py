"""In-process driver of the public RP2 API (engine layer, C01-C10).

`run_case(case)` builds Configuration / transactions / sets / InputData / AccountingEngine from a plain case
dictionary, runs `compute_tax` and returns a normalised dump in which every figure is a Fraction or a
string and every transaction is identified by its row number only.

rp2.logger creates ./log at import time: callers must chdir to a scratch directory *before* the first
call (runner.enter_scratch does).  rp2 is imported lazily for that reason.
"""
from __future__ import annotations

import logging
import os
from datetime import date
from fractions import Fraction
from typing import Any, Dict, List, Optional, Tuple

_RP2: Dict[str, Any] = {}
_CONFIG_CACHE: Dict[Tuple[Any, ...], str] = {}

INI_HEADERS = """
[in_header]
timestamp = 0
asset = 1
exchange = 2
holder = 3
transaction_type = 4
spot_price = 5
crypto_in = 6
crypto_fee = 7
fiat_in_no_fee = 8
fiat_in_with_fee = 9
fiat_fee = 10
unique_id = 11
notes = 12

[out_header]
timestamp = 0
asset = 1
exchange = 2
holder = 3
transaction_type = 4
spot_price = 5
crypto_out_no_fee = 6
crypto_fee = 7
crypto_out_with_fee = 8
fiat_out_no_fee = 9
fiat_fee = 10
unique_id = 11
notes = 12

[intra_header]
timestamp = 0
asset = 1
from_exchange = 2
from_holder = 3
to_exchange = 4
to_holder = 5
spot_price = 6
crypto_sent = 7
crypto_received = 8
unique_id = 9
notes = 10
"""


def rp2() -> Dict[str, Any]:
    """Import rp2 lazily (after the caller has entered its scratch directory)."""
    if _RP2:
        return _RP2
    import rp2 as rp2_pkg  # noqa: F401
    from prezzemolo.avl_tree import AVLTree
    from rp2.accounting_engine import AccountingEngine
    from rp2.configuration import MAX_DATE, MIN_DATE, Configuration
    from rp2.in_transaction import InTransaction
    from rp2.input_data import InputData
    from rp2.intra_transaction import IntraTransaction
    from rp2.out_transaction import OutTransaction
    from rp2.rp2_decimal import RP2Decimal
    from rp2.rp2_error import RP2Error, RP2ValueError
    from rp2.tax_engine import compute_tax
    from rp2.transaction_set import TransactionSet

    src = os.path.realpath(os.path.dirname(rp2_pkg.__file__))
    expected = os.path.realpath(os.environ.get("RP2V_REPO_SRC", "/repo/src/rp2"))
    if src != expected:
        raise RuntimeError(f"rp2 imported from {src}, expected {expected} (editable install of the working tree)")
    logging.getLogger("rp2").disabled = True
    logging.disable(logging.CRITICAL)
    _RP2.update(
        AVLTree=AVLTree,
        AccountingEngine=AccountingEngine,
        Configuration=Configuration,
        MIN_DATE=MIN_DATE,
        MAX_DATE=MAX_DATE,
        InTransaction=InTransaction,
        OutTransaction=OutTransaction,
        IntraTransaction=IntraTransaction,
        InputData=InputData,
        RP2Decimal=RP2Decimal,
        RP2Error=RP2Error,
        RP2ValueError=RP2ValueError,
        compute_tax=compute_tax,
        TransactionSet=TransactionSet,
    )
    return _RP2


def country_object(name: str, long_term_days: Optional[int] = None) -> Any:
    from importlib import import_module

    rp2()
    if name == "generic":
        os.environ["CURRENCY_CODE"] = "usd"
        os.environ["LONG_TERM_CAPITAL_GAINS"] = str(365 if long_term_days is None else long_term_days)
        return import_module("rp2.plugin.country.generic").Generic()
    module = import_module(f"rp2.plugin.country.{name}")
    return getattr(module, name.upper())()


def method_object(name: str) -> Any:
    from importlib import import_module

    return import_module(f"rp2.plugin.accounting_method.{name}").AccountingMethod()


def write_ini(path: str, assets: List[str], exchanges: List[str], holders: List[str], schedule: Optional[Dict[str, str]] = None) -> None:
    lines = ["[general]", f"assets = {', '.join(assets)}", f"exchanges = {', '.join(exchanges)}", f"holders = {', '.join(holders)}", INI_HEADERS]
    if schedule:
        lines.append("[accounting_methods]")
        for year, method in schedule.items():
            lines.append(f"{year} = {method}")
    with open(path, "w", encoding="utf-8") as handle:
        handle.write("\n".join(lines) + "\n")


def _config_path(assets: List[str], exchanges: List[str], holders: List[str]) -> str:
    key = (os.getcwd(), tuple(assets), tuple(exchanges), tuple(holders))
    if key not in _CONFIG_CACHE:
        path = os.path.join(os.getcwd(), f"cfg_{len(_CONFIG_CACHE)}.ini")
        write_ini(path, assets, exchanges, holders)
        _CONFIG_CACHE[key] = path
    return _CONFIG_CACHE[key]


def make_configuration(case: Dict[str, Any], from_date: Optional[str] = None, to_date: Optional[str] = None) -> Any:
    api = rp2()
    country = country_object(case.get("country", "us"), case.get("long_term_days"))
    path = _config_path([case["asset"]], case["exchanges"], case["holders"])
    return api["Configuration"](
        path,
        country,
        from_date=date.fromisoformat(from_date) if from_date else api["MIN_DATE"],
        to_date=date.fromisoformat(to_date) if to_date else api["MAX_DATE"],
        allow_negative_balances=bool(case.get("allow_negative", False)),
    )


def _dec(api: Dict[str, Any], text: Optional[str]) -> Any:
    return api["RP2Decimal"](text) if text is not None else None


def build_transaction(api: Dict[str, Any], configuration: Any, asset: str, row: Dict[str, Any]) -> Any:
    if row["table"] == "in":
        return api["InTransaction"](
            configuration,
            row["ts"],
            asset,
            row["ex"],
            row["ho"],
            row["type"],
            _dec(api, row["price"]),
            _dec(api, row["crypto_in"]),
            crypto_fee=None,
            fiat_in_no_fee=_dec(api, row.get("fiat_in_no_fee")),
            fiat_in_with_fee=_dec(api, row.get("fiat_in_with_fee")),
            fiat_fee=_dec(api, row.get("fiat_fee")),
            row=row["row"],
            unique_id=row.get("uid", ""),
        )
    if row["table"] == "out":
        return api["OutTransaction"](
            configuration,
            row["ts"],
            asset,
            row["ex"],
            row["ho"],
            row["type"],
            _dec(api, row["price"]),
            _dec(api, row["out"]),
            _dec(api, row.get("fee") or "0"),
            crypto_out_with_fee=_dec(api, row.get("out_with_fee")),
            fiat_out_no_fee=_dec(api, row.get("fiat_out_no_fee")),
            fiat_fee=_dec(api, row.get("fiat_fee")),
            row=row["row"],
            unique_id=row.get("uid", ""),
        )
    return api["IntraTransaction"](
        configuration,
        row["ts"],
        asset,
        row["from_ex"],
        row["from_ho"],
        row["to_ex"],
        row["to_ho"],
        _dec(api, row["price"]) if row.get("price") is not None else None,
        _dec(api, row["sent"]),
        _dec(api, row["received"]),
        row=row["row"],
        unique_id=row.get("uid", ""),
    )


def build_input(configuration: Any, case: Dict[str, Any], rows: Optional[List[Dict[str, Any]]] = None) -> Any:
    """Sets are filled in sheet-row order, artificial (negative id) rows last -- what parse_ods does (R7)."""
    api = rp2()
    asset = case["asset"]
    sets = {t: api["TransactionSet"](configuration, t.upper(), asset) for t in ("in", "out", "intra")}
    rows = case["rows"] if rows is None else rows
    ordered = sorted((r for r in rows if r["row"] >= 0), key=lambda r: r["row"]) + sorted((r for r in rows if r["row"] < 0), key=lambda r: -r["row"])
    for row in ordered:
        sets[row["table"]].add_entry(build_transaction(api, configuration, asset, row))
    return api["InputData"](asset, sets["in"], sets["out"], sets["intra"], configuration.from_date, configuration.to_date)


def make_engine(schedule: Dict[str, str]) -> Any:
    api = rp2()
    tree = api["AVLTree"]()
    for year, method in schedule.items():
        tree.insert_node(int(year), method_object(method))
    return api["AccountingEngine"](years_2_methods=tree)


def fr(value: Any) -> Fraction:
    return Fraction(str(value))


def dump_computed(computed: Any) -> Dict[str, Any]:
    """Normalised dump of a ComputedData object."""
    gls = computed.gain_loss_set
    fractions: List[Dict[str, Any]] = []
    for gl in gls:
        lot = gl.acquired_lot
        fractions.append(
            {
                "ev": gl.taxable_event.row,
                "ev_class": type(gl.taxable_event).__name__,
                "ev_type": gl.taxable_event.transaction_type.value,
                "lot": lot.row if lot is not None else None,
                "amount": fr(gl.crypto_amount),
                "proceeds": fr(gl.taxable_event_fiat_amount_with_fee_fraction),
                "basis": fr(gl.fiat_cost_basis),
                "gain": fr(gl.fiat_gain),
                "long": bool(gl.is_long_term_capital_gains()),
                "ev_k": gls.get_taxable_event_fraction(gl) + 1,
                "ev_n": gls.get_taxable_event_number_of_fractions(gl.taxable_event),
                "lot_k": (gls.get_acquired_lot_fraction(gl) + 1) if lot is not None else None,
                "lot_n": gls.get_acquired_lot_number_of_fractions(lot) if lot is not None else None,
                "running": fr(computed.get_crypto_gain_loss_running_sum(gl)),
                "ev_pct": fr(gl.taxable_event_fraction_percentage),
                "lot_pct": fr(gl.acquired_lot_fraction_percentage),
                "types": (
                    type(gl.crypto_amount).__name__,
                    type(gl.taxable_event_fiat_amount_with_fee_fraction).__name__,
                    type(gl.fiat_cost_basis).__name__,
                    type(gl.fiat_gain).__name__,
                ),
            }
        )
    taxable = [{"row": t.row, "class": type(t).__name__, "type": t.transaction_type.value, "amount": fr(t.crypto_balance_change)} for t in computed.taxable_event_set]
    yearly = [
        {
            "year": y.year,
            "asset": y.asset,
            "type": y.transaction_type.value,
            "long": bool(y.is_long_term_capital_gains),
            "crypto": fr(y.crypto_amount),
            "fiat": fr(y.fiat_amount),
            "basis": fr(y.fiat_cost_basis),
            "gain": fr(y.fiat_gain_loss),
        }
        for y in computed.yearly_gain_loss_list
    ]
    balances = [
        {
            "ex": b.exchange,
            "ho": b.holder,
            "final": fr(b.final_balance),
            "acquired": fr(b.acquired_balance),
            "sent": fr(b.sent_balance),
            "received": fr(b.received_balance),
        }
        for b in computed.balance_set
    ]
    ins = [{"row": t.row, "running": fr(computed.get_crypto_in_running_sum(t)), "sold_pct": fr(computed.get_in_lot_sold_percentage(t))} for t in computed.in_transaction_set]
    outs = [{"row": t.row, "running": fr(computed.get_crypto_out_running_sum(t)), "fee_running": fr(computed.get_crypto_out_fee_running_sum(t))} for t in computed.out_transaction_set]
    intras = [{"row": t.row, "fee_running": fr(computed.get_crypto_intra_fee_running_sum(t))} for t in computed.intra_transaction_set]
    return {
        "ok": True,
        "fractions": fractions,
        "taxable": taxable,
        "yearly": yearly,
        "balances": balances,
        "ppu": fr(computed.price_per_unit),
        "ins": ins,
        "outs": outs,
        "intras": intras,
    }


def run_case(
    case: Dict[str, Any],
    rows: Optional[List[Dict[str, Any]]] = None,
    from_date: Optional[str] = None,
    to_date: Optional[str] = None,
    schedule: Optional[Dict[str, str]] = None,
) -> Dict[str, Any]:
    """compute_tax on the case; {'ok': False, 'error_type', 'error'} when rp2 rejects the input with an RP2Error."""
    api = rp2()
    configuration = make_configuration(case, from_date if from_date is not None else case.get("from"), to_date if to_date is not None else case.get("to"))
    try:
        input_data = build_input(configuration, case, rows)
        engine = make_engine(schedule or case.get("schedule") or {"1970": "fifo"})
        computed = api["compute_tax"](configuration, engine, input_data)
        return dump_computed(computed)
    except api["RP2Error"] as exc:
        return {"ok": False, "error_type": type(exc).__name__, "error": str(exc), "internal": _raised_inside_rp2(exc) and not isinstance(exc, api["RP2ValueError"])}
    except Exception as exc:  # pylint: disable=broad-except
        if not _raised_inside_rp2(exc):
            raise  # a bug of the harness itself, never a verdict about rp2
        return {"ok": False, "error_type": type(exc).__name__, "error": f"{exc} [{_innermost_rp2_frame(exc)}]", "internal": True}


def _rp2_frames(exc: BaseException) -> List[str]:
    import traceback

    frames = traceback.extract_tb(exc.__traceback__)
    return [f"{f.filename.split('/src/rp2/')[-1]}:{f.name}:{f.lineno}" for f in frames if "/src/rp2/" in f.filename]


def _raised_inside_rp2(exc: BaseException) -> bool:
    return bool(_rp2_frames(exc))


def _innermost_rp2_frame(exc: BaseException) -> str:
    frames = _rp2_frames(exc)
    return frames[-1] if frames else "?"


# --------------------------------------------------------------------------------------------------- file layer


def dump_detail(computed: Any) -> Dict[str, Any]:
    """dump_computed + every field the reports print (used by the file-layer checks as 'the computed values')."""
    base = dump_computed(computed)
    gls = computed.gain_loss_set
    for entry, gl in zip(base["fractions"], gls):
        ev = gl.taxable_event
        lot = gl.acquired_lot
        entry.update(
            ev_ts=str(ev.timestamp),
            ev_year=ev.timestamp.year,
            ev_date=(ev.timestamp.year, ev.timestamp.month, ev.timestamp.day),
            ev_table={"InTransaction": "IN", "OutTransaction": "OUT", "IntraTransaction": "INTRA"}[type(ev).__name__],
            ev_uid=ev.unique_id,
            ev_price=fr(ev.spot_price),
            ev_total=fr(ev.crypto_balance_change),
            ev_notes=ev.notes,
        )
        if lot is not None:
            entry.update(
                lot_ts=str(lot.timestamp),
                lot_date=(lot.timestamp.year, lot.timestamp.month, lot.timestamp.day),
                lot_uid=lot.unique_id,
                lot_price=fr(lot.spot_price),
                lot_total=fr(lot.crypto_balance_change),
                lot_fiat_amount=fr(gl.acquired_lot_fiat_amount_with_fee_fraction),
                lot_fee_fraction=fr(lot.fiat_fee * gl.acquired_lot_fraction_percentage),
                lot_notes=lot.notes,
            )
    base["in_tx"] = [
        {
            "row": t.row,
            "ts": str(t.timestamp),
            "asset": t.asset,
            "ex": t.exchange,
            "ho": t.holder,
            "type": t.transaction_type.value,
            "price": fr(t.spot_price),
            "crypto_in": fr(t.crypto_in),
            "crypto_fee": fr(t.crypto_fee),
            "fiat_fee": fr(t.fiat_fee),
            "fiat_in_no_fee": fr(t.fiat_in_no_fee),
            "fiat_in_with_fee": fr(t.fiat_in_with_fee),
            "taxable": bool(t.is_taxable()),
            "uid": t.unique_id,
            "notes": t.notes,
            "running": fr(computed.get_crypto_in_running_sum(t)),
            "sold_pct": fr(computed.get_in_lot_sold_percentage(t)),
        }
        for t in computed.in_transaction_set
    ]
    base["out_tx"] = [
        {
            "row": t.row,
            "ts": str(t.timestamp),
            "asset": t.asset,
            "ex": t.exchange,
            "ho": t.holder,
            "type": t.transaction_type.value,
            "price": fr(t.spot_price),
            "out": fr(t.crypto_out_no_fee),
            "fee": fr(t.crypto_fee),
            "out_with_fee": fr(t.crypto_out_with_fee),
            "fiat_out_no_fee": fr(t.fiat_out_no_fee),
            "fiat_fee": fr(t.fiat_fee),
            "taxable": bool(t.is_taxable()),
            "uid": t.unique_id,
            "notes": t.notes,
            "running": fr(computed.get_crypto_out_running_sum(t)),
            "fee_running": fr(computed.get_crypto_out_fee_running_sum(t)),
        }
        for t in computed.out_transaction_set
    ]
    base["intra_tx"] = [
        {
            "row": t.row,
            "ts": str(t.timestamp),
            "asset": t.asset,
            "from_ex": t.from_exchange,
            "from_ho": t.from_holder,
            "to_ex": t.to_exchange,
            "to_ho": t.to_holder,
            "price": fr(t.spot_price),
            "sent": fr(t.crypto_sent),
            "received": fr(t.crypto_received),
            "fee": fr(t.crypto_fee),
            "fiat_fee": fr(t.fiat_fee),
            "taxable": bool(t.is_taxable()),
            "uid": t.unique_id,
            "notes": t.notes,
            "fee_running": fr(computed.get_crypto_intra_fee_running_sum(t)),
        }
        for t in computed.intra_transaction_set
    ]
    return base


def parse_files(ini_path: str, ods_path: str, country: str = "us", long_term_days: Optional[int] = None, from_date: Optional[str] = None, to_date: Optional[str] = None, allow_negative: bool = False) -> Tuple[Any, Dict[str, Any]]:
    """(Configuration, {asset: InputData}) through Configuration + open_ods + parse_ods, assets in sorted order."""
    api = rp2()
    from rp2.ods_parser import open_ods, parse_ods

    configuration = api["Configuration"](
        ini_path,
        country_object(country, long_term_days),
        from_date=date.fromisoformat(from_date) if from_date else api["MIN_DATE"],
        to_date=date.fromisoformat(to_date) if to_date else api["MAX_DATE"],
        allow_negative_balances=allow_negative,
    )
    handle = open_ods(configuration, ods_path)
    inputs = {asset: parse_ods(configuration, asset, handle) for asset in sorted(configuration.assets)}
    return configuration, inputs


def compute_files(
    ini_path: str,
    ods_path: str,
    country: str = "us",
    schedule: Optional[Dict[str, str]] = None,
    long_term_days: Optional[int] = None,
    from_date: Optional[str] = None,
    to_date: Optional[str] = None,
    allow_negative: bool = False,
    assets: Optional[List[str]] = None,
) -> Dict[str, Any]:
    """What the CLI computes for the same files and options, through the API: {'ok', 'assets': {asset: detail dump}}."""
    api = rp2()
    from rp2.ods_parser import open_ods, parse_ods

    try:
        configuration = api["Configuration"](
            ini_path,
            country_object(country, long_term_days),
            from_date=date.fromisoformat(from_date) if from_date else api["MIN_DATE"],
            to_date=date.fromisoformat(to_date) if to_date else api["MAX_DATE"],
            allow_negative_balances=allow_negative,
        )
        sched = schedule or {str(k): v for k, v in configuration.years_2_accounting_method_names.items()} or {"1970": "fifo"}
        engine = make_engine(sched)
        handle = open_ods(configuration, ods_path)
        result: Dict[str, Any] = {}
        for asset in sorted(assets or configuration.assets):
            input_data = parse_ods(configuration, asset, handle)
            result[asset] = dump_detail(api["compute_tax"](configuration, engine, input_data))
        return {"ok": True, "assets": result}
    except api["RP2Error"] as exc:
        return {"ok": False, "error_type": type(exc).__name__, "error": str(exc)}


def _instant(ts: Any) -> Tuple[int, int]:
    """(UTC microseconds since the epoch, offset minutes) of a tz-aware datetime, in exact integer arithmetic."""
    from datetime import datetime, timezone

    delta = ts - datetime(1970, 1, 1, tzinfo=timezone.utc)
    us = (delta.days * 86400 + delta.seconds) * 1_000_000 + delta.microseconds
    off = ts.utcoffset()
    return us, (off.days * 86400 + off.seconds) // 60


def dump_input(input_data: Any) -> Dict[str, List[Dict[str, Any]]]:
    """Field-by-field dump of the three unfiltered transaction sets of an InputData (in set insertion = list order)."""
    result: Dict[str, List[Dict[str, Any]]] = {"in": [], "out": [], "intra": []}
    for t in input_data.unfiltered_in_transaction_set._entry_list:  # pylint: disable=protected-access
        us, off = _instant(t.timestamp)
        result["in"].append(
            dict(
                row=t.row, us=us, off=off, asset=t.asset, ex=t.exchange, ho=t.holder, type=t.transaction_type.value, price=fr(t.spot_price), crypto_in=fr(t.crypto_in),
                crypto_fee=fr(t.crypto_fee), fiat_fee=fr(t.fiat_fee), fiat_in_no_fee=fr(t.fiat_in_no_fee), fiat_in_with_fee=fr(t.fiat_in_with_fee), uid=t.unique_id, notes=t.notes,
            )
        )
    for t in input_data.unfiltered_out_transaction_set._entry_list:  # pylint: disable=protected-access
        us, off = _instant(t.timestamp)
        result["out"].append(
            dict(
                row=t.row, us=us, off=off, asset=t.asset, ex=t.exchange, ho=t.holder, type=t.transaction_type.value, price=fr(t.spot_price), out=fr(t.crypto_out_no_fee), fee=fr(t.crypto_fee),
                out_with_fee=fr(t.crypto_out_with_fee), fiat_out_no_fee=fr(t.fiat_out_no_fee), fiat_fee=fr(t.fiat_fee), uid=t.unique_id, notes=t.notes,
            )
        )
    for t in input_data.unfiltered_intra_transaction_set._entry_list:  # pylint: disable=protected-access
        us, off = _instant(t.timestamp)
        result["intra"].append(
            dict(
                row=t.row, us=us, off=off, asset=t.asset, from_ex=t.from_exchange, from_ho=t.from_holder, to_ex=t.to_exchange, to_ho=t.to_holder, type=t.transaction_type.value,
                price=fr(t.spot_price), sent=fr(t.crypto_sent), received=fr(t.crypto_received), fee=fr(t.crypto_fee), fiat_fee=fr(t.fiat_fee), uid=t.unique_id, notes=t.notes,
            )
        )
    return result
