"""File layer: writing RP2 inputs (.ods through ezodf, .ini) and reading generated reports.

The report reader is deliberately independent of ezodf: it parses content.xml with xml.etree and returns, per sheet, a
grid of Cell(value, vtype, formula, text).  `=HYPERLINK("#<sheet>.a<r>:z<r>"; <payload>)` is decoded by parse_hyperlink.
"""
from __future__ import annotations

import re
import zipfile
from dataclasses import dataclass
from decimal import Decimal
from typing import Any, Dict, List, Optional, Tuple
from xml.etree import ElementTree as ET

NS = {
    "office": "urn:oasis:names:tc:opendocument:xmlns:office:1.0",
    "table": "urn:oasis:names:tc:opendocument:xmlns:table:1.0",
    "text": "urn:oasis:names:tc:opendocument:xmlns:text:1.0",
}
_T = "{%s}" % NS["table"]
_O = "{%s}" % NS["office"]
_X = "{%s}" % NS["text"]

# field order of the default layout (what docs/input_files.md shows)
IN_FIELDS = ["timestamp", "asset", "exchange", "holder", "transaction_type", "spot_price", "crypto_in", "crypto_fee", "fiat_in_no_fee", "fiat_in_with_fee", "fiat_fee", "unique_id", "notes"]
OUT_FIELDS = ["timestamp", "asset", "exchange", "holder", "transaction_type", "spot_price", "crypto_out_no_fee", "crypto_fee", "crypto_out_with_fee", "fiat_out_no_fee", "fiat_fee", "unique_id", "notes"]
INTRA_FIELDS = ["timestamp", "asset", "from_exchange", "from_holder", "to_exchange", "to_holder", "spot_price", "crypto_sent", "crypto_received", "unique_id", "notes"]
TABLE_FIELDS = {"in": IN_FIELDS, "out": OUT_FIELDS, "intra": INTRA_FIELDS}
MANDATORY = {
    "in": ["timestamp", "asset", "exchange", "holder", "transaction_type", "spot_price", "crypto_in"],
    "out": ["timestamp", "asset", "exchange", "holder", "transaction_type", "spot_price", "crypto_out_no_fee", "crypto_fee"],
    "intra": ["timestamp", "asset", "from_exchange", "from_holder", "to_exchange", "to_holder", "crypto_sent", "crypto_received"],
}
NUMERIC_FIELDS = {
    "spot_price",
    "crypto_in",
    "crypto_fee",
    "fiat_in_no_fee",
    "fiat_in_with_fee",
    "fiat_fee",
    "crypto_out_no_fee",
    "crypto_out_with_fee",
    "fiat_out_no_fee",
    "crypto_sent",
    "crypto_received",
}
# model row key -> spreadsheet field
ROW_KEY_TO_FIELD = {
    "in": {"ts": "timestamp", "ex": "exchange", "ho": "holder", "type": "transaction_type", "price": "spot_price", "crypto_in": "crypto_in", "crypto_fee": "crypto_fee", "fiat_in_no_fee": "fiat_in_no_fee", "fiat_in_with_fee": "fiat_in_with_fee", "fiat_fee": "fiat_fee", "uid": "unique_id", "notes": "notes"},
    "out": {"ts": "timestamp", "ex": "exchange", "ho": "holder", "type": "transaction_type", "price": "spot_price", "out": "crypto_out_no_fee", "fee": "crypto_fee", "out_with_fee": "crypto_out_with_fee", "fiat_out_no_fee": "fiat_out_no_fee", "fiat_fee": "fiat_fee", "uid": "unique_id", "notes": "notes"},
    "intra": {"ts": "timestamp", "from_ex": "from_exchange", "from_ho": "from_holder", "to_ex": "to_exchange", "to_ho": "to_holder", "price": "spot_price", "sent": "crypto_sent", "received": "crypto_received", "uid": "unique_id", "notes": "notes"},
}


def default_layout() -> Dict[str, Dict[str, int]]:
    return {table: {field: i for i, field in enumerate(fields)} for table, fields in TABLE_FIELDS.items()}


def roundtrips(text: str) -> bool:
    """True if the decimal survives spreadsheet storage: text -> double -> '%.11f' gives the same number (R1)."""
    return Decimal(f"{float(text):.11f}") == Decimal(text)


def write_ini(path: str, assets: List[str], exchanges: List[str], holders: List[str], layout: Optional[Dict[str, Dict[str, int]]] = None, schedule: Optional[Dict[str, str]] = None, extra: str = "", general_extra: Optional[List[str]] = None) -> None:
    layout = layout or default_layout()
    lines = ["[general]", f"assets = {', '.join(assets)}", f"exchanges = {', '.join(exchanges)}", f"holders = {', '.join(holders)}"] + list(general_extra or []) + [""]
    for table in ("in", "out", "intra"):
        lines.append(f"[{table}_header]")
        for field, col in layout[table].items():
            lines.append(f"{field} = {col}")
        lines.append("")
    if schedule:
        lines.append("[accounting_methods]")
        for year, method in schedule.items():
            lines.append(f"{year} = {method}")
        lines.append("")
    if extra:
        lines.append(extra)
    with open(path, "w", encoding="utf-8") as handle:
        handle.write("\n".join(lines))


def row_cells(table: str, asset: str, row: Dict[str, Any], layout: Dict[str, int], width: int, junk: Optional[List[Any]] = None) -> List[Any]:
    """One spreadsheet row for a raw model row under the given column layout; unmapped columns hold junk (or None)."""
    cells: List[Any] = list(junk) if junk is not None else [None] * width
    if len(cells) < width:
        cells += [None] * (width - len(cells))
    values: Dict[str, Any] = {"asset": asset}
    for key, field in ROW_KEY_TO_FIELD[table].items():
        if key in row and row[key] is not None:
            values[field] = row[key]
    for field, col in layout.items():
        value = values.get(field)
        if value is None:
            cells[col] = None
        elif field in NUMERIC_FIELDS or (field == "unique_id" and row.get("uid_numeric")):
            cells[col] = float(value)
        else:
            cells[col] = str(value)
    return cells


def build_sheet_grid(asset: str, tables: List[Tuple[str, List[Dict[str, Any]]]], layout: Dict[str, Dict[str, int]], blank_between: int = 1, extra_width: int = 0, first_blank: int = 0, junk_rows: Optional[Dict[int, List[Any]]] = None, trailing_blank: int = 0) -> Tuple[List[List[Any]], Dict[int, int]]:
    """Grid of cell values for one asset sheet.  `tables` = [(table, raw rows)] in sheet order; every raw row gets its
    1-based sheet row number stored under row['row'] (returned mapping: id(row) -> sheet row)."""
    width = max(max(cols.values()) for cols in layout.values()) + 1 + extra_width
    grid: List[List[Any]] = [[None] * width for _ in range(first_blank)]
    for table_index, (table, rows) in enumerate(tables):
        grid.append([table.upper()] + [None] * (width - 1))
        header: List[Any] = [None] * width
        for field, col in layout[table].items():
            header[col] = field.replace("_", " ").title()
        if header[0] is None:
            header[0] = "Header"
        grid.append(header)
        for row in rows:
            row["row"] = len(grid) + 1
            grid.append(row_cells(table, asset, row, layout[table], width, (junk_rows or {}).get(id(row))))
        grid.append(["TABLE END"] + [None] * (width - 1))
        if table_index < len(tables) - 1:
            for _ in range(blank_between):
                grid.append([None] * width)
    for _ in range(trailing_blank):
        grid.append([None] * width)
    return grid, {}


def write_ods(path: str, sheets: List[Tuple[str, List[List[Any]]]]) -> None:
    """Write grids (lists of rows of python values: None, str, float, int) as an .ods file through ezodf."""
    import ezodf

    doc = ezodf.newdoc("ods", path)
    for name, grid in sheets:
        n_rows = max(1, len(grid))
        n_cols = max(1, max((len(r) for r in grid), default=1))
        sheet = ezodf.Sheet(name, size=(n_rows, n_cols))
        doc.sheets += sheet
        for r, row in enumerate(grid):
            for c, value in enumerate(row):
                if value is not None:
                    sheet[r, c].set_value(value)
    doc.save()


# --------------------------------------------------------------------------------------------------- report reader


@dataclass
class Cell:
    value: Any = None  # float for numbers, str for strings, None for empty
    vtype: Optional[str] = None
    formula: Optional[str] = None
    text: str = ""

    @property
    def empty(self) -> bool:
        return self.value in (None, "") and not self.formula


def _cell_from_xml(node: ET.Element) -> Cell:
    vtype = node.get(_O + "value-type")
    formula = node.get(_T + "formula")
    text = "\n".join("".join(p.itertext()) for p in node.findall(_X + "p"))
    value: Any = None
    if vtype in ("float", "percentage", "currency"):
        value = float(node.get(_O + "value"))
    elif vtype == "string":
        value = node.get(_O + "string-value") or text
    elif vtype == "date":
        value = node.get(_O + "date-value")
    elif vtype == "boolean":
        value = node.get(_O + "boolean-value")
    elif vtype is None:
        value = text if text else None
    return Cell(value=value, vtype=vtype, formula=formula, text=text)


class Sheets(dict):  # type: ignore[type-arg]
    """{sheet name: rows}; `all_names` lists every table of the document in order, duplicates included (a dict alone would
    silently merge two sheets of the same name - which is exactly what a reader following a hyperlink cannot tell apart)."""

    all_names: List[str]


def read_ods(path: str) -> Dict[str, List[List[Cell]]]:
    """{sheet name: rows of Cell} in document order (dict order = sheet order); repeated rows/columns are expanded
    (trailing empty repetitions are capped).  With duplicate sheet names the first one wins in the mapping; see Sheets.all_names."""
    with zipfile.ZipFile(path) as archive:
        root = ET.fromstring(archive.read("content.xml"))
    result = Sheets()
    result.all_names = []
    for table in root.iter(_T + "table"):
        name = table.get(_T + "name")
        rows: List[List[Cell]] = []
        for row_node in table.iter(_T + "table-row"):
            repeat_rows = int(row_node.get(_T + "number-rows-repeated", "1"))
            cells: List[Cell] = []
            for cell_node in row_node:
                if cell_node.tag not in (_T + "table-cell", _T + "covered-table-cell"):
                    continue
                repeat = int(cell_node.get(_T + "number-columns-repeated", "1"))
                cell = _cell_from_xml(cell_node)
                cells.extend([cell] * (repeat if not cell.empty else min(repeat, 64)))
            for _ in range(repeat_rows if any(not c.empty for c in cells) else min(repeat_rows, 4)):
                rows.append(cells)
        result.all_names.append(name)
        if name not in result:
            result[name] = rows
    return result


def content_xml(path: str) -> bytes:
    with zipfile.ZipFile(path) as archive:
        return archive.read("content.xml")


_HYPERLINK_RE = re.compile(r'^(?:of:)?=HYPERLINK\("#(?P<sheet>.*)\.a(?P<r1>\d+):z(?P<r2>\d+)";\s*(?P<payload>.*)\)$', re.S)


def parse_hyperlink(formula: Optional[str]) -> Optional[Tuple[str, int, Any]]:
    """(target sheet, 1-based row, payload) where payload is a Decimal for numbers or a str; None if not a hyperlink."""
    if not formula:
        return None
    match = _HYPERLINK_RE.match(formula)
    if not match or match.group("r1") != match.group("r2"):
        return None
    payload = match.group("payload").strip()
    value: Any
    if payload.startswith('"') and payload.endswith('"'):
        value = payload[1:-1]
    else:
        try:
            value = Decimal(payload)
        except Exception:  # pylint: disable=broad-except
            value = payload
    return match.group("sheet"), int(match.group("r1")), value


def cell_payload(cell: Cell) -> Any:
    """The value a reader sees in a cell: the hyperlink payload if the cell is a hyperlink formula, else its value."""
    link = parse_hyperlink(cell.formula)
    if link is not None:
        return link[2]
    return cell.value


def find_title_row(rows: List[List[Cell]], title: str, start: int = 0) -> Optional[int]:
    """0-based index of the row whose first cell holds `title`."""
    for i in range(start, len(rows)):
        if rows[i] and rows[i][0].value == title:
            return i
    return None
