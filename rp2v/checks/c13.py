"""C13 - the full report shows every transaction and fraction once, with the computed values.

Drive: real CLI run + read-back of rp2_full_report.ods (own ODS reader).  Reference = ComputedData obtained through the
API from the same two files with the same options (the engine layer relates that object to the input), plus the
generated rows themselves for window membership, running sums and sold percentage.
"""
from __future__ import annotations

import os
from fractions import Fraction
from typing import Any, Dict, List, Optional, Tuple

from hypothesis import strategies as st

from .. import cli, cli_common, drive_api, filegen, files, gen, model, report_model
from ..report_model import cellv, num_equal
from ..runner import Outcome

ID = "C13"
LEVEL = "exploration"
RULE = (
    "Hypothesis-generated valid inputs (1-3 assets x 2-3 exchanges x 1-2 holders, rows shuffled in the sheet, unique id "
    "on every row, crypto-fee acquisitions) x every method and multi-entry schedules x windows (none / from / to / "
    "from+to / from==to) x (country, language) in {us/en, es/es, ie/en_IE, jp/en, jp/kl, generic/en}; one real CLI run per "
    "case, every cell of rp2_full_report.ods read back. Non-trivial = >= 2 assets or a window that hides something; "
    "distinct by case hash."
)
ASSUMPTIONS = [
    "doubles in cells are compared to double precision (<= 2 ulp); hyperlink payloads (full-precision decimals in the formula text) exactly",
    "running sums are tie-tolerant (R2); sold percentage is recomputed independently only without a from-date",
    "the legend's 'a->b:' prefix wording is not judged, only the <year>:<METHOD> tokens in order",
]

HIST = gen.GenCfg(min_steps=3, max_steps=12, max_exchanges=3, max_holders=2, bulk_prob=0.06, fiat_columns=True, big_lots=True, fiat_only_out_fee=True)
COUNTRIES = ("us", "us", "es", "ie", "jp", "generic")


def budget(tier: str) -> Dict[str, Any]:
    return {"shards": 16, "examples": 13 if tier == "quick" else 250, "shrink": False}


@st.composite
def strategy_case(draw: Any) -> Dict[str, Any]:
    case = draw(filegen.file_case(countries=COUNTRIES, hist=HIST, flavours=("mixed",) * 7 + ("dust_on_big_lot",)))
    if case["lang"] is None and case["country"] != "jp" and draw(st.booleans()):
        case["lang"] = cli.COUNTRY_LANGS[case["country"]][0]
    if case.get("to") and draw(st.integers(0, 3)) == 0:
        boundary = draw(filegen.boundary_to_date(case))
        if boundary and (not case.get("from") or case["from"] <= boundary):
            case["to"] = boundary
    return case


def strategy(tier: str) -> Any:
    return strategy_case()


def effective_lang(case: Dict[str, Any]) -> str:
    return case.get("lang") or cli.COUNTRY_DEFAULT_LANG[case["country"]]


def type_ok(cell: Any, type_value: str, t: Any) -> bool:
    return cell in (type_value.upper(), t(type_value).upper())


class Ctx:
    def __init__(self, out: Outcome, label: str) -> None:
        self.out = out
        self.label = label

    def fail(self, clause: str, detail: str) -> bool:
        self.out.fail(clause, f"{self.label}: {detail}")
        return False


def check_num(ctx: Ctx, sheet: str, row_i: int, col: int, row: List[files.Cell], expected: Fraction, what: str) -> bool:
    value = cellv(row, col)
    if not num_equal(value, expected):
        return ctx.fail("cell_value_mismatch", f"sheet '{sheet}' row {row_i + 1} col {col + 1} ({what}): cell shows {value!r}, computed value is {expected} (= {float(expected)!r})")
    return True


def check_text(ctx: Ctx, sheet: str, row_i: int, col: int, row: List[files.Cell], expected: Any, what: str) -> bool:
    value = cellv(row, col)
    value = "" if value is None else value
    if str(value) != str(expected):
        return ctx.fail("cell_value_mismatch", f"sheet '{sheet}' row {row_i + 1} col {col + 1} ({what}): cell shows {value!r}, expected {expected!r}")
    return True


def running_ok(value: Any, txs: List[model.Tx], me: model.Tx, amount_of: Any) -> bool:
    """Tie-tolerant running sum: all rows at earlier instants + own amount <= value <= all rows up to and including my instant."""
    got = report_model.to_fraction(value)
    if got is None:
        return False
    lower = sum((amount_of(t) for t in txs if t.us < me.us), Fraction(0)) + amount_of(me)
    upper = sum((amount_of(t) for t in txs if t.us <= me.us), Fraction(0))
    tol = Fraction(1, 10**12) * max(abs(upper), 1)
    return lower - tol <= got <= upper + tol


def check_asset(ctx: Ctx, report: report_model.FullReport, asset: str, ref: Dict[str, Any], rows_model: List[Dict[str, Any]], case: Dict[str, Any]) -> bool:
    t = report.t
    from_d, to_d = model.parse_date(case.get("from")), model.parse_date(case.get("to"))
    txs = model.make_txs(rows_model)
    in_out = report.in_out_name(asset)
    tax = report.tax_name(asset)
    for name in (in_out, tax):
        if name not in report.sheets:
            return ctx.fail("sheet_missing", f"sheet '{name}' not in the report {report.sheet_names}")
    # ------------------------------------------------------------------ In / Out / Intra tables
    specs = [
        ("in", "In-Flow Detail", "in_tx", [(2, "asset", "asset"), (3, "ex", "exchange"), (4, "ho", "holder"), (14, "uid", "unique id"), (15, "notes", "notes")], [(6, "price", "spot price"), (7, "crypto_in", "crypto in"), (8, "running", "crypto in running sum"), (9, "fiat_fee", "fiat fee"), (10, "fiat_in_no_fee", "fiat in no fee"), (11, "fiat_in_with_fee", "fiat in with fee")], 12),
        ("out", "Out-Flow Detail", "out_tx", [(2, "asset", "asset"), (3, "ex", "exchange"), (4, "ho", "holder"), (14, "uid", "unique id"), (15, "notes", "notes")], [(6, "price", "spot price"), (7, "out", "crypto out"), (8, "fee", "crypto fee"), (9, "running", "crypto out running sum"), (10, "fee_running", "crypto fee running sum"), (11, "fiat_out_no_fee", "fiat out"), (12, "fiat_fee", "fiat fee")], 13),
        ("intra", "Intra-Flow Detail", "intra_tx", [(2, "asset", "asset"), (3, "from_ex", "from exchange"), (4, "from_ho", "from holder"), (5, "to_ex", "to exchange"), (6, "to_ho", "to holder"), (14, "uid", "unique id"), (15, "notes", "notes")], [(7, "price", "spot price"), (8, "sent", "crypto sent"), (9, "received", "crypto received"), (10, "fee", "crypto fee"), (11, "fee_running", "crypto fee running sum"), (12, "fiat_fee", "fiat fee")], 13),
    ]
    start = 0
    for table, title, ref_key, text_cols, num_cols, taxable_col in specs:
        title_row, data = report.table_rows(in_out, title, 1, start)
        if title_row is None:
            return ctx.fail("table_missing", f"sheet '{in_out}': table '{title}' not found")
        start = title_row + 1
        expected_rows = ref[ref_key]
        window_rows = sorted(t_.row for t_ in txs if t_.table == table and model.in_window(t_.day, from_d, to_d))
        ref_rows = sorted(e["row"] for e in expected_rows)
        if ref_rows != window_rows:
            return ctx.fail("reference_window_mismatch", f"{asset}/{table}: computed set has rows {ref_rows}, rows dated in the window are {window_rows}")
        if len(data) != len(expected_rows):
            shown = [cellv(r, 14) for _, r in data]
            return ctx.fail("transaction_rows_count", f"sheet '{in_out}' table '{title}': {len(data)} rows shown (unique ids {shown}), {len(expected_rows)} transactions lie in the window (ids {[e['uid'] for e in expected_rows]})")
        previous_us: Optional[int] = None
        by_row = {t_.row: t_ for t_ in txs}
        table_txs = [t_ for t_ in txs if t_.table == table]
        for (row_i, row), exp in zip(data, expected_rows):
            me = by_row[exp["row"]]
            if previous_us is not None and me.us < previous_us:
                return ctx.fail("transactions_not_time_sorted", f"sheet '{in_out}' table '{title}' row {row_i + 1} is earlier than the row above")
            previous_us = me.us
            if not check_text(ctx, in_out, row_i, 1, row, exp["ts"], "timestamp"):
                return False
            for col, key, what in text_cols:
                if not check_text(ctx, in_out, row_i, col, row, exp[key], what):
                    return False
            for col, key, what in num_cols:
                if not check_num(ctx, in_out, row_i, col, row, exp[key], what):
                    return False
            if table != "intra" and not type_ok(cellv(row, 5), exp["type"], t):
                return ctx.fail("cell_value_mismatch", f"sheet '{in_out}' row {row_i + 1}: type cell {cellv(row, 5)!r}, transaction type is {exp['type']}")
            if cellv(row, taxable_col) != (t("YES") if exp["taxable"] else t("NO")):
                return ctx.fail("cell_value_mismatch", f"sheet '{in_out}' row {row_i + 1}: taxable-event cell {cellv(row, taxable_col)!r}, transaction taxable = {exp['taxable']}")
            # independent running sums over the whole history (tie-tolerant)
            if table == "in":
                if not running_ok(cellv(row, 8), table_txs, me, lambda x: x.crypto_in):
                    return ctx.fail("running_sum_wrong", f"sheet '{in_out}' row {row_i + 1}: crypto-in running sum {cellv(row, 8)!r} is not the cumulative sum over the whole history up to that transaction")
            elif table == "out":
                if not running_ok(cellv(row, 9), table_txs, me, lambda x: x.out):
                    return ctx.fail("running_sum_wrong", f"sheet '{in_out}' row {row_i + 1}: crypto-out running sum {cellv(row, 9)!r} is not the cumulative sum over the whole history")
                if not running_ok(cellv(row, 10), table_txs, me, lambda x: x.fee):
                    return ctx.fail("running_sum_wrong", f"sheet '{in_out}' row {row_i + 1}: crypto-fee running sum {cellv(row, 10)!r} is not the cumulative sum over the whole history")
            else:
                if not running_ok(cellv(row, 11), table_txs, me, lambda x: x.sent - x.received):
                    return ctx.fail("running_sum_wrong", f"sheet '{in_out}' row {row_i + 1}: transfer-fee running sum {cellv(row, 11)!r} is not the cumulative sum over the whole history")
        if table == "in":
            consumed: Dict[int, Fraction] = {}
            for f in ref["fractions"]:
                if f["lot"] is not None:
                    consumed[f["lot"]] = consumed.get(f["lot"], Fraction(0)) + f["amount"]
            for k, ((row_i, row), exp) in enumerate(zip(data, expected_rows)):
                shown = cellv(row, 0)
                if shown in (None, ""):
                    # rp2 leaves the cell blank when the percentage compares equal to zero at its 13-decimal resolution
                    # (half a unit of the 13th decimal rounds either way: anything below 1e-13 may be blank)
                    if abs(exp["sold_pct"]) >= Fraction(1, 10**13) or k == 0:
                        return ctx.fail("sold_percentage_wrong", f"sheet '{in_out}' row {row_i + 1}: sold % is empty, computed value is {exp['sold_pct']}")
                    continue
                if not num_equal(shown, exp["sold_pct"]):
                    return ctx.fail("sold_percentage_wrong", f"sheet '{in_out}' row {row_i + 1}: sold % {shown!r}, computed value {exp['sold_pct']}")
                if from_d is None:
                    independent = consumed.get(exp["row"], Fraction(0)) / by_row[exp["row"]].crypto_in
                    if abs(report_model.to_fraction(shown) - independent) > Fraction(1, 10**12):
                        return ctx.fail("sold_percentage_wrong", f"sheet '{in_out}' row {row_i + 1}: sold % {shown!r}, sum of the window's fractions of that lot / lot amount = {independent}")
    # ------------------------------------------------------------------ Tax sheet: summary, balances, average price, detail
    title_row, data = report.table_rows(tax, "Gain / Loss Summary", 0)
    if title_row is None:
        return ctx.fail("table_missing", f"sheet '{tax}': 'Gain / Loss Summary' not found")
    if len(data) != len(ref["yearly"]):
        return ctx.fail("summary_rows_count", f"sheet '{tax}' Gain / Loss Summary: {len(data)} lines, {len(ref['yearly'])} computed yearly lines")
    for (row_i, row), y in zip(data, ref["yearly"]):
        if not check_num(ctx, tax, row_i, 0, row, Fraction(y["year"]), "year"):
            return False
        if not check_text(ctx, tax, row_i, 1, row, y["asset"], "asset"):
            return False
        if not check_num(ctx, tax, row_i, 2, row, y["gain"], "capital gains"):
            return False
        if not check_text(ctx, tax, row_i, 3, row, t("LONG") if y["long"] else t("SHORT"), "capital gains type"):
            return False
        if not type_ok(cellv(row, 4), y["type"], t):
            return ctx.fail("cell_value_mismatch", f"sheet '{tax}' row {row_i + 1}: type {cellv(row, 4)!r} vs {y['type']}")
        for col, key, what in ((5, "crypto", "crypto taxable total"), (6, "fiat", "fiat taxable total"), (7, "basis", "total cost basis")):
            if not check_num(ctx, tax, row_i, col, row, y[key], what):
                return False
    title_row, data = report.table_rows(tax, "Account Balances", 0, title_row + 1)
    if title_row is None:
        return ctx.fail("table_missing", f"sheet '{tax}': 'Account Balances' not found")
    account_rows = [(i, r) for i, r in data if cellv(r, 0) != t("Total") or cellv(r, 2) not in (None, "")]
    total_rows = [(i, r) for i, r in data if (i, r) not in account_rows]
    if len(account_rows) != len(ref["balances"]):
        return ctx.fail("balance_rows_count", f"sheet '{tax}' Account Balances: {len(account_rows)} account rows, {len(ref['balances'])} computed balances")
    for (row_i, row), b in zip(account_rows, ref["balances"]):
        for col, key, what in ((0, "ex", "exchange"), (1, "ho", "holder")):
            if not check_text(ctx, tax, row_i, col, row, b[key], what):
                return False
        if not check_text(ctx, tax, row_i, 2, row, asset, "asset"):
            return False
        for col, key, what in ((3, "acquired", "acquired balance"), (4, "sent", "sent balance"), (5, "received", "received balance"), (6, "final", "final balance")):
            if not check_num(ctx, tax, row_i, col, row, b[key], what):
                return False
    totals: Dict[str, Fraction] = {}
    for b in ref["balances"]:
        totals[b["ho"]] = totals.get(b["ho"], Fraction(0)) + b["final"]
    if len(total_rows) != len(totals):
        return ctx.fail("holder_total_rows_count", f"sheet '{tax}': {len(total_rows)} 'Total' rows, {len(totals)} holders have balances")
    for (row_i, row), holder in zip(total_rows, sorted(totals)):
        if not check_text(ctx, tax, row_i, 1, row, holder, "holder of total"):
            return False
        if not check_num(ctx, tax, row_i, 6, row, totals[holder], "per-holder total"):
            return False
    rows = report.sheets[tax]
    avg_row = files.find_title_row(rows, t("Average Price"), title_row + 1)
    if avg_row is None:
        return ctx.fail("table_missing", f"sheet '{tax}': 'Average Price' not found")
    if not check_num(ctx, tax, avg_row + 3, 0, rows[avg_row + 3], ref["ppu"], "average price"):
        return False
    title_row, data = report.table_rows(tax, "Gain / Loss Detail", 0, avg_row + 1)
    if title_row is None:
        return ctx.fail("table_missing", f"sheet '{tax}': 'Gain / Loss Detail' not found")
    if len(data) != len(ref["fractions"]):
        return ctx.fail("detail_rows_count", f"sheet '{tax}' Gain / Loss Detail: {len(data)} rows, {len(ref['fractions'])} fractions in the window")
    # k/n labels recounted from the list of fractions itself (independent of rp2's own counters).  A from-date hides rows
    # without renumbering (C10), so the recount is exact only without one; with one, n can only be >= what is visible.
    ev_seen: Dict[int, int] = {}
    lot_seen: Dict[int, int] = {}
    ev_count: Dict[int, int] = {}
    lot_count: Dict[int, int] = {}
    for f in ref["fractions"]:
        ev_count[f["ev"]] = ev_count.get(f["ev"], 0) + 1
        if f["lot"] is not None:
            lot_count[f["lot"]] = lot_count.get(f["lot"], 0) + 1
    for (row_i, row), f in zip(data, ref["fractions"]):
        ev_seen[f["ev"]] = ev_seen.get(f["ev"], 0) + 1
        if f["ev_n"] != ev_count[f["ev"]] or f["ev_k"] != ev_seen[f["ev"]]:
            return ctx.fail("fraction_label_wrong", f"sheet '{tax}' row {row_i + 1}: taxable event fraction labelled {f['ev_k']}/{f['ev_n']}, it is number {ev_seen[f["ev"]]} of the {ev_count[f["ev"]]} fractions of that event")
        if f["lot"] is not None:
            lot_seen[f["lot"]] = lot_seen.get(f["lot"], 0) + 1
            if from_d is None and (f["lot_n"] != lot_count[f["lot"]] or f["lot_k"] != lot_seen[f["lot"]]):
                return ctx.fail("fraction_label_wrong", f"sheet '{tax}' row {row_i + 1}: acquired lot fraction labelled {f['lot_k']}/{f['lot_n']}, it is number {lot_seen[f['lot']]} of the {lot_count[f['lot']]} fractions taken from that lot up to the to-date")
            if from_d is not None and (f["lot_n"] < lot_count[f["lot"]] or f["lot_k"] < lot_seen[f["lot"]] or f["lot_k"] > f["lot_n"]):
                return ctx.fail("fraction_label_wrong", f"sheet '{tax}' row {row_i + 1}: acquired lot fraction labelled {f['lot_k']}/{f['lot_n']}, but {lot_count[f['lot']]} fractions of that lot are visible and this is at least number {lot_seen[f['lot']]}")
        for col, key, what in ((0, "amount", "crypto amount"), (2, "running", "crypto amount running sum"), (3, "gain", "capital gains"), (7, "ev_pct", "taxable event fraction %"), (8, "proceeds", "taxable event amount fraction"), (9, "ev_price", "taxable event spot price")):
            if not check_num(ctx, tax, row_i, col, row, f[key], what):
                return False
        if not check_text(ctx, tax, row_i, 1, row, asset, "asset"):
            return False
        if not check_text(ctx, tax, row_i, 4, row, t("LONG") if f["long"] else t("SHORT"), "capital gains type"):
            return False
        if not check_text(ctx, tax, row_i, 5, row, f["ev_ts"], "taxable event timestamp"):
            return False
        direction = str(cellv(row, 6))
        if direction not in (f"{f['ev_table']} / {f['ev_type'].upper()}", f"{f['ev_table']} / {t(f['ev_type']).upper()}"):
            return ctx.fail("cell_value_mismatch", f"sheet '{tax}' row {row_i + 1}: direction/type {direction!r}, fraction is {f['ev_table']} / {f['ev_type']}")
        if not check_text(ctx, tax, row_i, 10, row, f["ev_uid"], "taxable event unique id"):
            return False
        note = f"{f['ev_k']}/{f['ev_n']}: {float(f['amount']):.8f} of {float(f['ev_total']):.8f} {asset}"
        if not _note_ok(cellv(row, 11), f["ev_k"], f["ev_n"], f["amount"], f["ev_total"], asset):
            return ctx.fail("fraction_label_wrong", f"sheet '{tax}' row {row_i + 1}: taxable event label {cellv(row, 11)!r}, expected '{note}'")
        if f["lot"] is None:
            for col in range(12, 19):
                if cellv(row, col) not in (None, ""):
                    return ctx.fail("cell_value_mismatch", f"sheet '{tax}' row {row_i + 1} col {col + 1}: income fraction shows lot data {cellv(row, col)!r}")
            continue
        if not check_text(ctx, tax, row_i, 12, row, f["lot_ts"], "acquired lot timestamp"):
            return False
        for col, key, what in ((13, "lot_pct", "acquired lot fraction %"), (14, "lot_fiat_amount", "acquired lot amount fraction"), (15, "lot_fee_fraction", "acquired lot fee fraction"), (16, "basis", "cost basis"), (17, "lot_price", "acquired lot spot price")):
            if not check_num(ctx, tax, row_i, col, row, f[key], what):
                return False
        if not check_text(ctx, tax, row_i, 18, row, f["lot_uid"], "acquired lot unique id"):
            return False
        if not _note_ok(cellv(row, 19), f["lot_k"], f["lot_n"], f["amount"], f["lot_total"], asset):
            return ctx.fail("fraction_label_wrong", f"sheet '{tax}' row {row_i + 1}: acquired lot label {cellv(row, 19)!r}, expected '{f['lot_k']}/{f['lot_n']}: {float(f['amount']):.8f} of {float(f['lot_total']):.8f} {asset}'")
    return True


def _note_ok(value: Any, k: int, n: int, amount: Fraction, total: Fraction, asset: str) -> bool:
    """'k/n: a of b ASSET' with a, b printed with 8 decimals (either rounding of the last digit is accepted)."""
    import re

    match = re.match(r"^(\d+)/(\d+): (-?[\d.]+) of (-?[\d.]+) (.*)$", str(value))
    if not match:
        return False
    if int(match.group(1)) != k or int(match.group(2)) != n or match.group(5) != asset:
        return False
    step = Fraction(1, 10**8)
    return abs(Fraction(match.group(3)) - amount) <= step and abs(Fraction(match.group(4)) - total) <= step


def check_legend(ctx: Ctx, report: report_model.FullReport, case: Dict[str, Any]) -> bool:
    legend = report.legend()
    if not legend:
        return ctx.fail("legend_missing", f"no '{report.t('Accounting Method')}' row in the legend sheet")
    schedule = cli_common.schedule_of(case)
    text = str(legend.get("method") or "")
    if len(schedule) == 1:
        method = list(schedule.values())[0].upper()
        if text != method:
            return ctx.fail("legend_method_wrong", f"legend says accounting method {text!r}, the computation used {method}")
    else:
        position = 0
        for year, method in schedule.items():
            token = f"{year}:{method.upper()}"
            found = text.find(token, position)
            if found < 0:
                return ctx.fail("legend_method_wrong", f"legend says {text!r}; token {token!r} of the schedule {schedule} is missing or out of order")
            position = found + len(token)
        if text.count(":") != len(schedule):
            return ctx.fail("legend_method_wrong", f"legend says {text!r}: {text.count(':')} entries for a schedule of {len(schedule)}")
    for key, option in (("from", case.get("from")), ("to", case.get("to"))):
        shown = str(legend.get(key) or "")
        if option:
            if shown != option:
                return ctx.fail("legend_filter_wrong", f"legend {key}-date filter shows {shown!r}, the run used {option}")
        elif shown in ("", "None") or any(ch.isdigit() for ch in shown):
            return ctx.fail("legend_filter_wrong", f"legend {key}-date filter shows {shown!r} although no {key}-date was given")
    return True


def check_summary(ctx: Ctx, report: report_model.FullReport, reference: Dict[str, Any]) -> bool:
    t = report.t
    name = report.summary_name()
    if name not in report.sheets:
        return ctx.fail("sheet_missing", f"sheet '{name}' missing")
    _, data = report.table_rows(name, "Yearly Gain / Loss Summary", 0)
    expected = [(asset, y) for asset in sorted(reference) for y in reference[asset]["yearly"]]
    if len(data) != len(expected):
        return ctx.fail("summary_rows_count", f"sheet '{name}': {len(data)} lines, {len(expected)} yearly lines computed over all assets")
    for (row_i, row), (asset, y) in zip(data, expected):
        if not check_num(ctx, name, row_i, 0, row, Fraction(y["year"]), "year"):
            return False
        if not check_text(ctx, name, row_i, 1, row, asset, "asset"):
            return False
        if not check_num(ctx, name, row_i, 2, row, y["gain"], "capital gains"):
            return False
        if not check_text(ctx, name, row_i, 3, row, t("LONG") if y["long"] else t("SHORT"), "capital gains type"):
            return False
        if not type_ok(cellv(row, 4), y["type"], t):
            return ctx.fail("cell_value_mismatch", f"sheet '{name}' row {row_i + 1}: type {cellv(row, 4)!r} vs {y['type']}")
        for col, key, what in ((5, "crypto", "crypto taxable total"), (6, "fiat", "fiat taxable total"), (7, "basis", "total cost basis")):
            if not check_num(ctx, name, row_i, col, row, y[key], what):
                return False
    return True


def run_and_reference(case: Dict[str, Any], folder: str) -> Tuple[Optional[cli.CliResult], Optional[Dict[str, Any]], str, Dict[str, List[Dict[str, Any]]]]:
    result, ini, ods, outdir = cli_common.run_case(case, folder)
    rows_model = filegen.case_post_rows(case)
    if result.rc != 0:
        return result, None, outdir, rows_model
    reference = drive_api.compute_files(
        ini,
        ods,
        case["country"],
        schedule=cli_common.schedule_of(case),
        long_term_days=case.get("long_term_days"),
        from_date=case.get("from"),
        to_date=case.get("to"),
        allow_negative=bool(case.get("allow_negative")),
        assets=[case["asset_opt"]] if case.get("asset_opt") else None,
    )
    return result, reference, outdir, rows_model


def evaluate(case: Dict[str, Any]) -> Outcome:
    out = Outcome()
    lang = effective_lang(case)
    out.classes.add(f"{case['country']}/{lang}")
    window = ("from" if case.get("from") else "") + ("+" if case.get("from") and case.get("to") else "") + ("to" if case.get("to") else "") or "none"
    out.classes.add(f"window_{window}")
    out.classes |= cli_common.volume_classes(case)
    if case.get("schedule"):
        out.classes.add("schedule_multi")
    folder = cli_common.work_dir("c13")
    try:
        result, reference, outdir, rows_model = run_and_reference(case, folder)
        if result.rc != 0 or reference is None or not reference.get("ok"):
            bucket = cli_common.aborted_in(result.text, "plugin/report/rp2_full_report.py") if result.rc != 0 else None
            if bucket:
                out.fail("full_report_generation_aborted", f"rp2_{case['country']} exited {result.rc} while writing the report: {bucket}")
                return out
            out.skipped = "run_failed(C16)"
            return out
        from_d, to_d = model.parse_date(case.get("from")), model.parse_date(case.get("to"))
        hidden = any(not model.in_window(tx.day, from_d, to_d) for rows in rows_model.values() for tx in model.make_txs(rows))
        if len(case["assets"]) >= 2 or hidden:
            out.nontrivial = True
        if hidden:
            out.classes.add("window_hides_something")
        label = cli.method_label(case.get("method"), case.get("schedule"), case["country"])
        path = os.path.join(outdir, f"{case.get('prefix') or ''}{label}_rp2_full_report.ods")
        if not os.path.exists(path):
            out.fail("full_report_not_written", f"rp2_{case['country']} exited 0 but {os.path.basename(path)} is not in the output directory ({result.files})")
            return out
        report = report_model.FullReport(path, lang)
        ctx = Ctx(out, f"rp2_{case['country']} -g {lang} window {window}")
        assets = sorted(reference["assets"])
        expected_sheets = [report.legend_name(), report.summary_name()] + [n for a in assets for n in (report.in_out_name(a), report.tax_name(a))]
        if report.sheet_names != expected_sheets:
            ctx.fail("sheets_mismatch", f"report has sheets {report.sheet_names}, expected {expected_sheets}")
            return out
        if not check_legend(ctx, report, case):
            return out
        if not check_summary(ctx, report, reference["assets"]):
            return out
        for asset in assets:
            if not check_asset(ctx, report, asset, reference["assets"][asset], rows_model[asset], case):
                return out
    finally:
        cli_common.cleanup(folder)
    return out


def minimize(case: Dict[str, Any], clause: str) -> Dict[str, Any]:
    def still_fails(candidate: Dict[str, Any]) -> bool:
        return any(c == clause for c, _ in evaluate(candidate).violations)

    return cli_common.minimize(case, still_fails, budget=30)
