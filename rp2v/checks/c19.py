"""C19 - hyperlinks in the full report lead to the row of the same transaction.

Oracle (read-back of formula text): every HYPERLINK of a '<asset> Tax' detail row targets '<asset> In-Out' of the same
asset; the target row's unique-id cell equals the id shown in that detail row (event columns -> event id, lot columns ->
lot id), its timestamp cell equals the linked timestamp, and it sits in the table of the right direction.  A transaction
hidden by the date filter carries a plain value (no link); a shown one is linked.  Every Summary line links into
'<asset> Tax' at the first gain/loss detail row of that year (plain value when the window leaves none).
"""
from __future__ import annotations

import os
from typing import Any, Dict, List, Optional, Tuple

from hypothesis import strategies as st

from .. import cli, cli_common, filegen, files, gen, model, report_model
from ..report_model import cellv, link_of
from ..runner import Outcome
from . import c13

ID = "C19"
LEVEL = "exploration"
RULE = (
    "C13's generated inputs, biased to 2-3 assets whose sheets share row numbers (every sheet starts at row 1-2), rows "
    "shuffled within tables, a distinct unique id on every row, windows (from / to / from+to) that hide lots and events; "
    "one real CLI run per case; every HYPERLINK formula of the Tax and Summary sheets is resolved against the rows it "
    "points to. Non-trivial = >= 2 assets with a colliding sheet row number and a window hiding a consumed lot; distinct "
    "by case hash."
)
ASSUMPTIONS = [
    "unique ids are distinct per spreadsheet row (artificial fee rows share the id of their acquisition and are told apart by table)",
]

HIST = gen.GenCfg(min_steps=4, max_steps=12, max_exchanges=2, max_holders=2, bulk_prob=0.05, fiat_columns=True, big_lots=3)
EVENT_COLS = (5, 6, 7, 8, 9, 10, 11)
LOT_COLS = (12, 13, 14, 15, 16, 17, 18, 19)


def budget(tier: str) -> Dict[str, Any]:
    return {"shards": 16, "examples": 13 if tier == "quick" else 250, "shrink": False}


@st.composite
def strategy_case(draw: Any) -> Dict[str, Any]:
    case = draw(filegen.file_case(countries=("us", "us", "es", "generic", "ie", "jp"), hist=HIST, max_assets=3, min_assets=draw(st.sampled_from([1, 2, 2, 2])), flavours=("mixed", "mixed", "mixed", "mixed", "dust_on_big_lot")))
    if draw(st.integers(0, 3)) and not case.get("from") and case["country"] != "jp":
        # most cases get a from-date so that lots are hidden
        txs = [t for rows in filegen.case_post_rows(_stamped(case)).values() for t in model.make_txs(rows)]
        case["from"] = draw(gen.window_date(txs))
        if case.get("to") and case["to"] < case["from"]:
            case["to"] = None
    return case


def _stamped(case: Dict[str, Any]) -> Dict[str, Any]:
    filegen.stamp_rows(case)
    return case


def strategy(tier: str) -> Any:
    return strategy_case()


def table_ranges(report: report_model.FullReport, sheet: str) -> Dict[str, Tuple[int, int]]:
    """{'IN'|'OUT'|'INTRA': (first, last) 1-based data row numbers} of the In-Out sheet (empty table -> (0, -1))."""
    result: Dict[str, Tuple[int, int]] = {}
    start = 0
    for name, title in (("IN", "In-Flow Detail"), ("OUT", "Out-Flow Detail"), ("INTRA", "Intra-Flow Detail")):
        title_row, data = report.table_rows(sheet, title, 1, start)
        if title_row is None:
            result[name] = (0, -1)
            continue
        start = title_row + 1
        result[name] = (data[0][0] + 1, data[-1][0] + 1) if data else (0, -1)
    return result


def evaluate(case: Dict[str, Any]) -> Outcome:
    out = Outcome()
    lang = c13.effective_lang(case)
    out.classes.add(f"{case['country']}/{lang}")
    out.classes |= cli_common.volume_classes(case)
    folder = cli_common.work_dir("c19")
    try:
        result, reference, outdir, rows_model = c13.run_and_reference(case, folder)
        if result.rc != 0 or reference is None or not reference.get("ok"):
            out.skipped = "run_failed(C16)"
            return out
        from_d, to_d = model.parse_date(case.get("from")), model.parse_date(case.get("to"))
        label = cli.method_label(case.get("method"), case.get("schedule"), case["country"])
        report = report_model.FullReport(os.path.join(outdir, f"{case.get('prefix') or ''}{label}_rp2_full_report.ods"), lang)
        assets = sorted(reference["assets"])
        # classification
        row_sets = [{t.row for t in model.make_txs(rows_model[a]) if t.row > 0} for a in assets]
        colliding = len(assets) >= 2 and any(row_sets[i] & row_sets[j] for i in range(len(assets)) for j in range(i + 1, len(assets)))
        hidden_lot = False
        n_links = 0
        for asset in assets:
            ref = reference["assets"][asset]
            txs = {t.row: t for t in model.make_txs(rows_model[asset])}
            in_out, tax = report.in_out_name(asset), report.tax_name(asset)
            if report.sheet_names.count(in_out) != 1 or report.sheet_names.count(tax) != 1:
                # a hyperlink names a sheet: with the asset's sheet missing, or two sheets of that name, no link can lead to "the
                # row of the same transaction in that asset's In-Out sheet"
                out.fail("asset_sheet_not_addressable", f"asset {asset}: the report must hold exactly one sheet '{in_out}' and one sheet '{tax}' for links to resolve; its sheets are {report.sheet_names}")
                return out
            ranges = table_ranges(report, in_out)
            in_out_rows = report.sheets[in_out]
            _, detail = report.table_rows(tax, "Gain / Loss Detail", 0)
            if len(detail) != len(ref["fractions"]):
                out.skipped = "detail_rows_count(C13)"
                return out
            first_row_of_year: Dict[int, int] = {}
            previous_year: Optional[int] = None
            for (row_i, row), f in zip(detail, ref["fractions"]):
                if f["ev_year"] != previous_year and f["ev_year"] not in first_row_of_year:
                    first_row_of_year[f["ev_year"]] = row_i + 1
                previous_year = f["ev_year"]
                for cols, who, uid, ts, table, tx_row in (
                    (EVENT_COLS, "taxable event", f["ev_uid"], f["ev_ts"], f["ev_table"], f["ev"]),
                    (LOT_COLS, "acquired lot", f.get("lot_uid"), f.get("lot_ts"), "IN", f["lot"]),
                ):
                    if tx_row is None:
                        continue
                    shown = model.in_window(txs[tx_row].day, from_d, to_d)
                    if not shown and who == "acquired lot":
                        hidden_lot = True
                    for col in cols:
                        link = link_of(row, col)
                        where = f"sheet '{tax}' row {row_i + 1} col {col + 1} ({who} id {uid!r})"
                        if not shown:
                            if link is not None:
                                out.fail("link_for_hidden_transaction", f"{where}: the {who} is dated {txs[tx_row].day}, outside the window {case.get('from')}..{case.get('to')}, yet the cell links to '{link[0]}' row {link[1]}")
                                return out
                            continue
                        if link is None:
                            out.fail("link_missing", f"{where}: the {who} is shown in '{in_out}' but the cell carries no hyperlink (formula {row[col].formula!r})")
                            return out
                        n_links += 1
                        sheet, target, _payload = link
                        if sheet != in_out:
                            out.fail("link_to_wrong_sheet", f"{where}: links to sheet '{sheet}', the transaction is in '{in_out}'")
                            return out
                        first, last = ranges[table]
                        if not first <= target <= last:
                            out.fail("link_to_wrong_table", f"{where}: links to row {target}, outside the {table} table (rows {first}..{last})")
                            return out
                        target_row = in_out_rows[target - 1]
                        if str(cellv(target_row, 14) or "") != str(uid) or str(cellv(target_row, 1)) != str(ts):
                            out.fail(
                                "link_to_wrong_row",
                                f"{where}: links to '{sheet}' row {target}, which holds the transaction with unique id {cellv(target_row, 14)!r} at {cellv(target_row, 1)!r}, not {uid!r} at {ts!r}",
                            )
                            return out
            # Summary lines of this asset
            name = report.summary_name()
            _, summary = report.table_rows(name, "Yearly Gain / Loss Summary", 0)
            for row_i, row in summary:
                if cellv(row, 1) != asset:
                    continue
                year = int(cellv(row, 0))
                for col in range(8):
                    link = link_of(row, col)
                    where = f"sheet '{name}' row {row_i + 1} col {col + 1} (asset {asset}, year {year})"
                    if year not in first_row_of_year:
                        if link is not None:
                            out.fail("summary_link_without_detail_row", f"{where}: no gain/loss row of {year} is shown in '{tax}', yet the cell links to '{link[0]}' row {link[1]}")
                            return out
                        continue
                    if link is None:
                        out.fail("link_missing", f"{where}: no hyperlink (formula {row[col].formula!r})")
                        return out
                    n_links += 1
                    if link[0] != tax or link[1] != first_row_of_year[year]:
                        out.fail("summary_link_wrong_target", f"{where}: links to '{link[0]}' row {link[1]}; the first gain/loss row of {year} in '{tax}' is row {first_row_of_year[year]}")
                        return out
        if colliding:
            out.classes.add("assets_share_row_numbers")
        if hidden_lot:
            out.classes.add("window_hides_consumed_lot")
        if colliding and hidden_lot:
            out.nontrivial = True
        out.metrics["links_checked"] = n_links
    finally:
        cli_common.cleanup(folder)
    return out


def minimize(case: Dict[str, Any], clause: str) -> Dict[str, Any]:
    def still_fails(candidate: Dict[str, Any]) -> bool:
        return any(c == clause for c, _ in evaluate(candidate).violations)

    return cli_common.minimize(case, still_fails, budget=30)
