"""C20 - Japanese tax report: one sheet per asset-year, chained in year order.

Oracle (read-back of sheet names, transaction rows and cross-sheet formula text of tax_report_jp.ods):
  * sheets: exactly '{asset}_{year}' for every (asset, own local year) that has a transaction, '{year}_Summary' for every
    such year, with one line per asset whose four formulas point at that asset-year's sheet;
  * transaction rows (row 22 onwards): the year's acquisitions, disposals and fee-bearing transfers once each, in time
    order: month, day, exchange ('Transfer' for transfers), type, purchased amount and yen, sold amount and yen, fee;
  * opening balance: 0 for the asset's first year, otherwise references to the closing-balance cells (recognised by their
    own formulas =E<r>+F<r>-H<r> and =I<r>*G<r+1>) of the same asset's greatest earlier year sheet.
"""
from __future__ import annotations

import os
import re
from collections import Counter
from fractions import Fraction
from typing import Any, Dict, List, Optional, Tuple

from hypothesis import strategies as st

from .. import cli, cli_common, filegen, files, gen, model, report_model
from ..report_model import cellv, to_fraction
from ..runner import Outcome

ID = "C20"
LEVEL = "exploration"
RULE = (
    "Hypothesis-generated valid inputs of 1-3 assets with year-scale gaps (sparse, non-consecutive years), tables permuted "
    "and rows shuffled so that years are first met in different order in the IN/OUT/INTRA tables, disposal-only and "
    "transfer-only years, entries of different time zones within an hour of New Year whose own years read Y, Y-1, Y along the "
    "time axis (flavours disposal_years / transfer_heavy / fully_sold / sparse_years / new_year_offsets / mixed), -g en and -g kl and the default "
    "language, no window or to-date only; one real rp2_jp run per case; tax_report_jp.ods read back. Non-trivial = an asset "
    "whose years are not consecutive, or whose years are first met out of order across the three tables or are not in instant order; distinct by hash."
)
ASSUMPTIONS = [
    "yen = amount x spot price (exchange-supplied fiat columns are not generated for C20); for DONATE rows only the sold amount is compared (the yen cell is formatted text by design)",
    "fee-less transfers carry nothing to list and are not judged",
]

HIST = gen.GenCfg(min_steps=3, max_steps=10, max_exchanges=2, max_holders=1, long_gaps=True, tie_prob=0.15, bulk_prob=0.08, fiat_only_out_fee=True)
FLAVOURS = ("mixed", "mixed", "disposal_years", "transfer_heavy", "fully_sold", "sparse_years", "sparse_years", "new_year_offsets")
FIRST_ROW = 21  # 0-based index of spreadsheet row 22
REL = Fraction(1, 10**12)


def budget(tier: str) -> Dict[str, Any]:
    return {"shards": 16, "examples": 10 if tier == "quick" else 190, "shrink": False}


@st.composite
def strategy_case(draw: Any) -> Dict[str, Any]:
    case = draw(filegen.file_case(countries=("jp",), hist=HIST, flavours=FLAVOURS, allow_from=False, windows=False))
    case["lang"] = draw(st.sampled_from(["en", "kl", None]))
    case["from"] = case["to"] = None
    return case


def strategy(tier: str) -> Any:
    return strategy_case()


def same_num(cell: Any, expected: Fraction) -> bool:
    got = to_fraction(cell)
    if got is None:
        return False
    # absolute floor 1e-12: yen values below RP2's 13-decimal comparison resolution are treated as zero by rp2 (R13)
    return abs(got - expected) <= max(REL * abs(expected), Fraction(1, 10**12))


def expected_row(tx: model.Tx, transfer_word: str) -> Optional[Dict[str, Any]]:
    month, day = tx.day.month, tx.day.day
    if tx.table == "in":
        yen = tx.crypto_in * tx.price
        row: Dict[str, Any] = {"month": month, "day": day, "client": tx.ex, "type": tx.type.upper(), "buy": tx.crypto_in, "buy_yen": yen, "sell": None, "sell_yen": None, "fee": tx.fiat_fee}
        if tx.is_earn:
            row["sell"] = Fraction(0)
            row["sell_yen"] = yen
        return row
    if tx.table == "out":
        fee_yen = tx.fee * tx.price if tx.fee > 0 else tx.fiat_fee
        return {"month": month, "day": day, "client": tx.ex, "type": tx.type.upper(), "buy": None, "buy_yen": None, "sell": tx.out_with_fee, "sell_yen": None if tx.type == "donate" else tx.out * tx.price, "fee": fee_yen, "donate": tx.type == "donate"}
    fee = tx.sent - tx.received
    if fee <= 0:
        return None
    return {"month": month, "day": day, "client": transfer_word, "type": "FEE", "buy": None, "buy_yen": None, "sell": fee, "sell_yen": fee * tx.price, "fee": Fraction(0)}


def row_matches(row: List[files.Cell], exp: Dict[str, Any]) -> bool:
    if to_fraction(cellv(row, 0)) != exp["month"] or to_fraction(cellv(row, 1)) != exp["day"]:
        return False
    if str(cellv(row, 2)) != exp["client"] or str(cellv(row, 3)) != exp["type"]:
        return False
    for col, key in ((4, "buy"), (5, "buy_yen"), (6, "sell")):
        if exp[key] is None:
            if cellv(row, col) not in (None, ""):
                return False
        elif not same_num(cellv(row, col), exp[key]):
            return False
    if exp["sell_yen"] is not None and not exp.get("donate"):
        if not same_num(cellv(row, 7), exp["sell_yen"]):
            return False
    elif exp["sell"] is None and cellv(row, 7) not in (None, ""):
        return False
    return same_num(cellv(row, 8), exp["fee"])


def describe(row: List[files.Cell]) -> List[Any]:
    return [cellv(row, c) for c in range(9)]


def evaluate(case: Dict[str, Any]) -> Outcome:
    out = Outcome()
    lang = case.get("lang") or "ja"
    out.classes.add(f"lang_{lang}")
    out.classes |= cli_common.volume_classes(case)
    folder = cli_common.work_dir("c20")
    try:
        result, _ini, _ods, outdir = cli_common.run_case(case, folder)
        rows_model = filegen.case_post_rows(case)
        if result.rc != 0:
            bucket = cli_common.aborted_in(result.text, "/tax_report_jp.py")
            if bucket:
                out.fail("jp_report_generation_aborted", f"rp2_jp exited {result.rc} while writing tax_report_jp: {bucket}")
                return out
            out.skipped = "run_failed(C16)"
            return out
        t = report_model.translator(lang)
        path = os.path.join(outdir, "fifo_tax_report_jp.ods")
        if not os.path.exists(path):
            out.fail("jp_report_not_written", f"rp2_jp exited 0 but {os.path.basename(path)} is not in the output directory ({result.files})")
            return out
        sheets = files.read_ods(path)
        names = list(getattr(sheets, "all_names", sheets))
        # ---- expected sheets
        per_asset_years: Dict[str, Dict[int, List[model.Tx]]] = {}
        for asset, rows in rows_model.items():
            for tx in model.make_txs(rows):
                per_asset_years.setdefault(asset, {}).setdefault(tx.year, []).append(tx)
        asset_sheet = {(a, y): t("{}_{}").format(a, y) for a, years in per_asset_years.items() for y in years}
        summary_sheet = {y: t("{}_Summary").format(y) for years in per_asset_years.values() for y in years}
        expected_names = set(asset_sheet.values()) | set(summary_sheet.values()) | {t("Legend")}
        if set(names) != expected_names or len(names) != len(set(names)):
            out.fail(
                "jp_sheets_mismatch",
                f"tax_report_jp.ods has sheets {names}; expected one calculation sheet per asset-year {sorted(asset_sheet.values())} and one summary per year {sorted(summary_sheet.values())}",
            )
            return out
        for asset, years in per_asset_years.items():
            ordered = sorted(years)
            if any(b - a > 1 for a, b in zip(ordered, ordered[1:])):
                out.nontrivial = True
                out.classes.add("non_consecutive_years")
            first_seen: List[int] = []
            for table in ("in", "out", "intra"):
                for tx in sorted((x for ys in years.values() for x in ys if x.table == table), key=lambda x: x.us):
                    if tx.year not in first_seen:
                        first_seen.append(tx.year)
            if first_seen != sorted(first_seen):
                out.nontrivial = True
                out.classes.add("years_first_met_out_of_order")
            by_instant = [x.year for x in sorted((x for ys in years.values() for x in ys), key=lambda x: x.us)]
            if by_instant != sorted(by_instant):
                out.nontrivial = True
                out.classes.add("own_years_not_in_instant_order")
            if any(all(x.table != "in" for x in ys) for ys in years.values()):
                out.classes.add("year_without_acquisition")
        # ---- per asset-year sheet
        closing: Dict[Tuple[str, int], Tuple[int, int]] = {}
        net_income: Dict[Tuple[str, int], int] = {}
        opening: Dict[Tuple[str, int], Tuple[Any, Any]] = {}
        for (asset, year), name in asset_sheet.items():
            rows = sheets[name]
            txs = sorted(per_asset_years[asset][year], key=lambda x: x.us)
            expected = [(tx, expected_row(tx, t("Transfer"))) for tx in txs]
            expected = [(tx, e) for tx, e in expected if e is not None]
            data: List[Tuple[int, List[files.Cell]]] = []
            i = FIRST_ROW
            while i < len(rows) and isinstance(cellv(rows[i], 0), (int, float)) and isinstance(cellv(rows[i], 1), (int, float)):
                data.append((i, rows[i]))
                i += 1
            if len(data) != len(expected):
                out.fail(
                    "jp_transaction_rows_count",
                    f"sheet '{name}': {len(data)} transaction rows, the year has {len(expected)} acquisitions / disposals / fee-bearing transfers; rows shown: {[describe(r)[:4] for _, r in data]}",
                )
                return out
            remaining = list(expected)
            previous_us: Optional[int] = None
            for row_i, row in data:
                candidates = [k for k, (tx, e) in enumerate(remaining) if row_matches(row, e)]
                if not candidates:
                    out.fail("jp_transaction_row_mismatch", f"sheet '{name}' row {row_i + 1} shows {describe(row)}: no transaction of {asset} in {year} matches it (unmatched so far: {[(tx.table, tx.type, str(tx.day)) for tx, _ in remaining]})")
                    return out
                ordered = sorted(candidates, key=lambda k: remaining[k][0].us)
                pick = next((k for k in ordered if previous_us is None or remaining[k][0].us >= previous_us), None)
                if pick is None:
                    out.fail("jp_rows_not_in_time_order", f"sheet '{name}' row {row_i + 1} ({describe(row)[:4]}) is earlier than the row above")
                    return out
                previous_us = remaining[pick][0].us
                del remaining[pick]
            # ---- closing / opening balance cells, recognised by their formulas
            found = None
            for r0 in range(FIRST_ROW, len(rows) - 1):
                formula = rows[r0][8].formula if len(rows[r0]) > 8 else None
                if formula and re.sub(r"^of:", "", formula) == f"=E{r0 + 1}+F{r0 + 1}-H{r0 + 1}":
                    nxt = rows[r0 + 1][8].formula if len(rows[r0 + 1]) > 8 else None
                    if nxt and re.sub(r"^of:", "", nxt) == f"=I{r0 + 1}*G{r0 + 2}":
                        found = r0
                        break
            if found is None:
                out.fail("jp_closing_cells_not_found", f"sheet '{name}': closing-balance cells (=E<r>+F<r>-H<r> over =I<r>*G<r+1>) not found")
                return out
            closing[(asset, year)] = (found + 1, found + 2)  # 1-based rows of the crypto / yen closing cells
            # net income cell of the sheet, recognised by its own formula =I<n+2>-I<n+3> (n = its 1-based row)
            for r0 in range(found + 2, len(rows)):
                formula = rows[r0][8].formula if len(rows[r0]) > 8 else None
                if formula and re.sub(r"^of:", "", formula) == f"=I{r0 + 3}-I{r0 + 4}":
                    net_income[(asset, year)] = r0 + 1
                    break
            crypto_open = rows[found][4]
            yen_open = rows[found + 1][4]
            opening[(asset, year)] = (crypto_open.formula or crypto_open.value, yen_open.formula or yen_open.value)
        for (asset, year), (crypto_open, yen_open) in opening.items():
            earlier = [y for y in per_asset_years[asset] if y < year]
            name = asset_sheet[(asset, year)]
            if not earlier:
                if to_fraction(crypto_open) != 0 or to_fraction(yen_open) != 0:
                    out.fail("jp_opening_balance_first_year", f"sheet '{name}' is the first year of {asset}; its opening balance cells hold {crypto_open!r} / {yen_open!r} instead of 0")
                    return out
                continue
            prev = max(earlier)
            prev_name = asset_sheet[(asset, prev)]
            r_crypto, r_yen = closing[(asset, prev)]
            want = (f"='{prev_name}'.I{r_crypto}", f"='{prev_name}'.I{r_yen}")
            have = (re.sub(r"^of:", "", str(crypto_open)), re.sub(r"^of:", "", str(yen_open)))
            if have != want:
                out.fail(
                    "jp_opening_balance_chain",
                    f"sheet '{name}': opening balance cells hold {have}; the most recent earlier year of {asset} is {prev}, whose closing-balance cells are {want}",
                )
                return out
        # ---- summary sheets
        for year, name in summary_sheet.items():
            rows = sheets[name]
            listed: List[str] = []
            assets_of_year = sorted(a for a, years in per_asset_years.items() if year in years)
            for i in range(7, len(rows)):
                first = cellv(rows[i], 0)
                formulas = [rows[i][c].formula for c in range(3, 7) if len(rows[i]) > c]
                if first in assets_of_year or (isinstance(first, str) and first in per_asset_years):
                    listed.append(first)
                    target = asset_sheet.get((first, year))
                    for formula in formulas:
                        if not formula or target is None or not re.sub(r"^of:", "", formula).startswith(f"='{target}'."):
                            out.fail("jp_summary_line_wrong_target", f"sheet '{name}' row {i + 1} (asset {first}): formulas {formulas} do not all point at sheet '{target}'")
                            return out
                    # ... and at that sheet's result cells: average unit price (the G cell the closing yen value multiplies by), closing
                    # balance in crypto and in yen, net income (each recognised on the asset-year sheet by its own formula)
                    r_crypto, r_yen = closing[(first, year)]
                    wanted = [f"='{target}'.G{r_yen}", f"='{target}'.I{r_crypto}", f"='{target}'.I{r_yen}"]
                    if (first, year) in net_income:
                        wanted.append(f"='{target}'.I{net_income[(first, year)]}")
                    have_cells = [re.sub(r"^of:", "", f or "") for f in formulas[: len(wanted)]]
                    if have_cells != wanted:
                        out.fail(
                            "jp_summary_line_wrong_cells",
                            f"sheet '{name}' row {i + 1} (asset {first}): average price / closing crypto / closing yen / net income formulas are {have_cells}; the result cells of sheet '{target}' are {wanted}",
                        )
                        return out
            if sorted(listed) != assets_of_year:
                out.fail("jp_summary_lines_mismatch", f"sheet '{name}' lists assets {listed}; assets with transactions in {year}: {assets_of_year}")
                return out
    finally:
        cli_common.cleanup(folder)
    return out


def minimize(case: Dict[str, Any], clause: str) -> Dict[str, Any]:
    def still_fails(candidate: Dict[str, Any]) -> bool:
        return any(c == clause for c, _ in evaluate(candidate).violations)

    return cli_common.minimize(case, still_fails, budget=30)
