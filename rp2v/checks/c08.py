"""C08 - histories that overdraw an account are rejected unless -n is given.

Oracle from the rows, independent of the processing order inside an instant (model.overdraft_verdict):
  must reject  : some account's end-of-instant balance < -1e-10  -> RP2ValueError naming exchange and holder
  must accept  : every account's balance, as a function of time, is >= 0 at every instant.  Two sub-classes: no debit
                 needs a same-instant transfer credit (any order inside the instant works), or some debit does
                 ("accept_same_instant": e.g. a deposit and a sale recorded with the same timestamp)
  undecided    : tolerance band [-1e-10, 0) -> counted, not asserted
With -n the run proceeds and the reported final balance equals the model's (negative where it is).

Known finding F12 (signature-scoped): two *transfers* with one timestamp forming a chain A->X->B are accepted or rejected
depending on the order of their rows, although X is never negative at any moment in time.
"""
from __future__ import annotations

from fractions import Fraction
import copy
from typing import Any, Dict, List, Optional, Set, Tuple

from hypothesis import strategies as st

from .. import drive_api, gen, model
from ..engine_common import engine_case, history_classes, inject_overdraft, permute_row_numbers
from ..runner import Outcome

ID = "C08"
LEVEL = "exploration"
RULE = (
    "C07's multi-account histories with one overdraft injected at a random debit (depth in {1e-11, 9e-11, 2e-10, 1e-9, 3}, "
    "optionally refilled later = transient), row numbers permuted so that sheet order != chronological order, "
    "same-instant buy+sell on one account, x both values of allow_negative_balances x methods; a quarter of the cases carry "
    "no overdraft (must be accepted). Oracle: three-valued verdict from the rows; accepted runs are compared with the "
    "model's final balances. Non-trivial = a decided overdraft whose final balance is >= 0 (transient), or dust depth, or "
    "an overdraft inside an instant shared with other transactions; distinct by case hash."
)
ASSUMPTIONS = [
    "undecided cases (tolerance band, same-instant transfer chains) are counted in ambiguous_skipped, never asserted",
    "when the whole holding is over-spent as well, the matcher's own RP2ValueError (C02) is accepted as the rejection",
]

CFG = gen.GenCfg(min_steps=3, max_steps=14, max_exchanges=3, max_holders=2, tie_prob=0.35)


def budget(tier: str) -> Dict[str, Any]:
    return {"shards": 16, "examples": 1000 if tier == "quick" else 12000}


@st.composite
def strategy_case(draw: Any) -> Dict[str, Any]:
    allow = draw(st.booleans())
    case = draw(engine_case(CFG, allow_negative=allow))
    case["overdraft"] = None
    kind = draw(st.integers(0, 7))
    if kind <= 4:
        case["overdraft"] = draw(inject_overdraft(case))
    elif kind <= 6:
        case["same_instant"] = draw(add_same_instant_dependency(case))
    if draw(st.booleans()):
        draw(permute_row_numbers(case))
        case["rows_permuted"] = True
    return case


@st.composite
def add_same_instant_dependency(draw: Any, case: Dict[str, Any]) -> Optional[str]:
    """Append a debit that empties the destination account of a transfer *at the transfer's own timestamp* (day-granularity
    records: deposit and sale carry the same time): never negative at any moment, but covered only by the same-instant credit.
    Chosen so that nothing later debits that account.  Returns 'out' / 'intra' (what was appended) or None."""
    rows = case["rows"]
    txs = model.make_txs(rows)
    candidates = []
    for t in txs:
        if t.table != "intra" or (t.from_ex, t.from_ho) == (t.to_ex, t.to_ho) or t.received <= 0:
            continue
        acc = (t.to_ex, t.to_ho)
        touched_later = any(
            u.us >= t.us and u is not t and ((u.table == "out" and (u.ex, u.ho) == acc) or (u.table == "intra" and acc in ((u.from_ex, u.from_ho), (u.to_ex, u.to_ho))) or (u.table == "in" and (u.ex, u.ho) == acc and u.us == t.us))
            for u in txs
        )
        if not touched_later:
            candidates.append(t)
    if not candidates:
        return None
    t = draw(st.sampled_from(candidates))
    acc = (t.to_ex, t.to_ho)
    balance = model.account_flows([u for u in txs if u.us <= t.us], None)[acc].final
    if balance <= 0:
        return None
    amount = balance if draw(st.booleans()) else max(Fraction(1, 10**11), balance - t.received / 2)
    kind = draw(st.sampled_from(["out", "out", "intra"]))
    next_row = max(u.row for u in txs) + 1
    if kind == "out":
        rows.append({"table": "out", "row": next_row, "ts": t.ts, "ex": acc[0], "ho": acc[1], "type": draw(st.sampled_from(["sell", "gift", "fee"])), "price": "7.5", "out": "0", "fee": "0", "uid": "same-instant"})
        field = "fee" if rows[-1]["type"] == "fee" else "out"
        rows[-1][field] = gen._frac_to_str(amount)
    else:
        others = [(e, h) for e in case["exchanges"] for h in case["holders"] if (e, h) != acc]
        if not others:
            return None
        dest = draw(st.sampled_from(others))
        rows.append({"table": "intra", "row": next_row, "ts": t.ts, "from_ex": acc[0], "from_ho": acc[1], "to_ex": dest[0], "to_ho": dest[1], "price": "7.5", "sent": gen._frac_to_str(amount), "received": gen._frac_to_str(amount), "uid": "same-instant"})
    return kind


def strategy(tier: str) -> Any:
    return strategy_case()


def negative_accounts(txs: List[model.Tx]) -> Set[Tuple[str, str]]:
    """Accounts whose balance can be observed below zero right after one of their debits under some order."""
    by_us: Dict[int, List[model.Tx]] = {}
    for t in txs:
        by_us.setdefault(t.us, []).append(t)
    bal: Dict[Tuple[str, str], Fraction] = {}
    result: Set[Tuple[str, str]] = set()
    for us in sorted(by_us):
        credits: Dict[Tuple[str, str], Fraction] = {}
        transfers_in: Dict[Tuple[str, str], Fraction] = {}
        debits: Dict[Tuple[str, str], Fraction] = {}
        for t in by_us[us]:
            if t.table == "in":
                credits[(t.ex, t.ho)] = credits.get((t.ex, t.ho), Fraction(0)) + t.crypto_in
            elif t.table == "out":
                debits[(t.ex, t.ho)] = debits.get((t.ex, t.ho), Fraction(0)) + t.out + t.fee
            else:
                debits[(t.from_ex, t.from_ho)] = debits.get((t.from_ex, t.from_ho), Fraction(0)) + t.sent
                transfers_in[(t.to_ex, t.to_ho)] = transfers_in.get((t.to_ex, t.to_ho), Fraction(0)) + t.received
        for acc in set(credits) | set(transfers_in) | set(debits):
            start = bal.get(acc, Fraction(0))
            low = start + credits.get(acc, Fraction(0)) - debits.get(acc, Fraction(0))
            bal[acc] = low + transfers_in.get(acc, Fraction(0))
            if acc in debits and low < 0:
                result.add(acc)
    return result


def evaluate(case: Dict[str, Any]) -> Outcome:
    out = Outcome()
    txs = model.make_txs(case["rows"])
    out.classes |= history_classes(txs, case["schedule"])
    verdict, who = model.overdraft_verdict(txs)
    global_over = model.overspend_somewhere(txs)
    allow = bool(case["allow_negative"])
    out.classes.add(f"verdict_{verdict}")
    out.classes.add("with_n" if allow else "without_n")
    info = case.get("overdraft")
    if info:
        if info["refilled"]:
            out.classes.add("transient_overdraft")
        if model.F(info["depth"]) < Fraction(1, 10**8):
            out.classes.add("dust_overdraft")
    if case.get("rows_permuted"):
        out.classes.add("rows_permuted")
    dump = drive_api.run_case(case)
    if allow:
        # the run proceeds and reports the negative balance
        if not dump["ok"]:
            if global_over:
                out.skipped = "whole_holding_overspent(C02)"
            else:
                out.fail("rejected_despite_n", f"allow_negative_balances is set, yet the run failed with {dump['error_type']}: {dump['error'][:300]}")
            return out
        expected = model.account_flows(txs, None)
        reported = {(b["ex"], b["ho"]): b["final"] for b in dump["balances"]}
        for key, flows in expected.items():
            if reported.get(key) != flows.final:
                out.fail("negative_balance_not_reported", f"account {key}: model final balance {flows.final}, reported {reported.get(key)}")
                return out
        if any(f.final < 0 for f in expected.values()):
            out.nontrivial = True
            out.classes.add("negative_final_reported")
        return out
    if case.get("same_instant"):
        out.classes.add(f"same_instant_debit_appended_{case['same_instant']}")
    if verdict == "undecided":
        out.skipped = "undecided(tolerance band)"
        return out
    if verdict == "reject":
        finals = model.account_flows(txs, None)
        if who is not None and finals[who].final >= 0:
            out.nontrivial = True
            out.classes.add("decided_transient")
        if info and model.F(info["depth"]) < Fraction(1, 10**8):
            out.nontrivial = True
        if len({t.us for t in txs}) < len(txs):
            out.nontrivial = True
        if dump["ok"]:
            out.fail("overdraft_not_rejected", f"account {who} ends an instant below -1e-10, allow_negative_balances is off, yet compute_tax succeeded")
            return out
        if dump["error_type"] != "RP2ValueError":
            out.fail("overdraft_wrong_error", f"expected RP2ValueError, got {dump['error_type']}: {dump['error'][:300]}")
            return out
        if "went negative" in dump["error"]:
            candidates = negative_accounts(txs)
            if not any(f'account "{ex}"' in dump["error"] and f'holder "{ho}"' in dump["error"] for ex, ho in candidates):
                out.fail("error_names_wrong_account", f"error names an account that is never negative; negative accounts: {sorted(candidates)}; error: {dump['error'][:200]}")
        elif not global_over:
            out.fail("error_does_not_name_account", f"rejected, but the error does not name the overdrawn account {who}: {dump['error'][:300]}")
        return out
    # verdict == accept / accept_same_instant
    if verdict == "accept_same_instant":
        out.nontrivial = True
    if not dump["ok"]:
        if global_over:
            out.skipped = "whole_holding_overspent(C02)"
            return out
        why = "" if verdict == "accept" else f" (account {who} is debited and credited by a transfer at the same instant; its balance at that moment in time is >= 0)"
        out.fail("no_overdraft_but_rejected", f"no account ever goes negative{why}, yet the run failed with {dump['error_type']}: {dump['error'][:300]}")
        return out
    return out


def known_signature(case: Dict[str, Any], clause: str, detail: str) -> Optional[str]:
    """F12: a same-instant transfer chain A->X->B rejected because the row of X->B precedes the row of A->X."""
    if clause != "no_overdraft_but_rejected" or "IntraTransaction" not in detail:
        return None
    txs = model.make_txs(copy.deepcopy(case["rows"]))
    for ex, ho in model.same_instant_transfer_chain_accounts(txs):
        if f'account "{ex}"' in detail and f'holder "{ho}"' in detail:
            return "F12_same_instant_transfer_chain_order"
    return None
