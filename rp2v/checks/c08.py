"""C08 - histories that overdraw an account are rejected unless -n is given.

Oracle from the rows, independent of the processing order inside an instant (model.overdraft_verdict):
  must reject  : some account's end-of-instant balance < -1e-10  -> RP2ValueError naming exchange and holder
  must accept  : every account's balance, as a function of time, is >= 0 at every instant.  Two sub-classes: no debit
                 needs a same-instant transfer credit (any order inside the instant works), or some debit does
                 ("accept_same_instant": e.g. a deposit and a sale recorded with the same timestamp)
  undecided    : tolerance band [-1e-10, 0) -> counted, not asserted
With -n the run proceeds and the reported final balance equals the model's (negative where it is).

Known finding F12 (signature-scoped): two *transfers* with one timestamp forming a chain A->X->B are accepted or rejected
depending on the order of their rows, although X is never negative at any moment in time.
"""
from __future__ import annotations

from fractions import Fraction
import copy
from typing import Any, Dict, List, Optional, Set, Tuple

from hypothesis import strategies as st

from .. import cli_common, drive_api, e2e, filegen, gen, model
from ..engine_common import end_of_instant_balance, engine_case, history_classes, inject_overdraft, permute_row_numbers
from ..runner import Outcome

ID = "C08"
LEVEL = "exploration"
RULE = (
    "C07's multi-account histories with one overdraft injected at a random debit (depth in {1e-11, 9e-11, 2e-10, 1e-9, 3}, "
    "optionally refilled later = transient), row numbers permuted so that sheet order != chronological order, "
    "same-instant buy+sell on one account, disposals whose fee was paid in fiat (crypto fee 0), x both values of allow_negative_balances x methods; a quarter of the cases carry "
    "no overdraft (must be accepted), an eighth of them with a debit appended that empties the destination of a transfer at the "
    "transfer's own timestamp (never negative in time, covered only by the same-instant credit). Oracle: verdict from the rows; accepted runs are compared with the "
    "model's final balances. Non-trivial = a decided overdraft whose final balance is >= 0 (transient), or dust depth, or "
    "an overdraft inside an instant shared with other transactions; distinct by case hash."
)
ASSUMPTIONS = [
    "undecided cases (tolerance band [-1e-10, 0)) are counted in ambiguous_skipped, never asserted",
    "'at any moment' is read as a point in time: a debit covered by a transfer credited at the same instant is not an overdraft (finding F12 is the one place where rp2 disagrees, depending on row order)",
    "when the whole holding is over-spent as well, the matcher's own RP2ValueError (C02) is accepted as the rejection",
]
RULE += e2e.RULE_SUFFIX

CFG = gen.GenCfg(min_steps=3, max_steps=14, max_exchanges=3, max_holders=2, tie_prob=0.35, fiat_only_out_fee=True)


def budget(tier: str) -> Dict[str, Any]:
    return {"shards": 16, "examples": 1000 if tier == "quick" else 12000, "examples2": 8 if tier == "quick" else 150}


# ------------------------------------------------------------------------------------------------ end-to-end tier
E2E_HIST = gen.GenCfg(min_steps=5, max_steps=14, max_exchanges=3, max_holders=2, tie_prob=0.3, ops=("in", "in", "out", "out", "intra", "intra"))


@st.composite
def strategy2_case(draw: Any) -> Dict[str, Any]:
    """Files + console entry point: multi-account inputs, any window (-f / -t), with and without -n, half of them with one debit
    enlarged so that its account ends that instant below zero (dust .. large)."""
    case = draw(e2e.file_strategy(E2E_HIST, countries=("us", "us", "generic", "ie", "jp"), to_dates=True, from_dates=True, max_assets=2, flavours=("mixed", "transfer_heavy")))
    case["allow_negative"] = draw(st.booleans())
    case["e2e_overdraft"] = None
    if draw(st.booleans()):
        filegen.stamp_rows(case)
        asset = draw(st.sampled_from(sorted(case["assets"])))
        raw = [r for _, rows in case["assets"][asset]["tables"] for r in rows]
        txs = model.make_txs(filegen.post_rows(raw)[0])
        to_d = model.parse_date(case.get("to"))
        targets = [r for r in raw if r["table"] in ("out", "intra") and (to_d is None or model.make_tx(dict(r)).day <= to_d)]
        if targets:
            row = draw(st.sampled_from(targets))
            tx = model.make_tx(dict(row))
            account = (row["from_ex"], row["from_ho"]) if row["table"] == "intra" else (row["ex"], row["ho"])
            depth = model.F(draw(st.sampled_from(["0.00000000001", "0.0000000002", "0.000000001", "0.5", "3"])))
            extra = end_of_instant_balance(txs, account, tx.us) + depth
            if extra > 0 and extra < 20000:
                if row["table"] == "out":
                    field = "fee" if row["type"] == "fee" else "out"
                    row[field] = gen._frac_to_str(model.F(row[field]) + extra)
                    if row.get("out_with_fee") is not None:
                        row["out_with_fee"] = gen._frac_to_str(model.F(row["out"]) + model.F(row["fee"]))
                    for key in ("fiat_out_no_fee", "fiat_fee"):
                        row.pop(key, None)
                else:
                    row["sent"] = gen._frac_to_str(model.F(row["sent"]) + extra)
                    row["received"] = gen._frac_to_str(model.F(row["received"]) + extra)
                case["e2e_overdraft"] = {"asset": asset, "uid": row.get("uid"), "account": list(account), "depth": str(depth)}
    return case


def strategy2(tier: str) -> Any:
    return strategy2_case()


def minimize(case: Dict[str, Any], clause: str) -> Dict[str, Any]:
    return e2e.minimize(case, clause, evaluate) if case.get("e2e") else case


def evaluate_e2e(case: Dict[str, Any]) -> Outcome:
    out = Outcome()
    out.classes.add("e2e_cli")
    out.classes.add(f"e2e_{case['country']}")
    allow = bool(case.get("allow_negative"))
    out.classes.add("e2e_with_n" if allow else "e2e_without_n")
    if case.get("from"):
        out.classes.add("e2e_with_from_date")
    if case.get("to"):
        out.classes.add("e2e_with_to_date")
    if case.get("e2e_overdraft"):
        out.classes.add("e2e_overdraft_injected")
    folder = cli_common.work_dir("c08e")
    try:
        result, dumps, rows_model = e2e.run(case, folder)
        to_d = model.parse_date(case.get("to"))
        verdicts = {}
        global_over = False
        for asset, rows in rows_model.items():
            txs = model.make_txs(rows)
            if not model.is_date_monotone(txs):
                out.skipped = "non_monotone_dates(R3)"
                return out
            upto = [t for t in txs if to_d is None or t.day <= to_d]
            verdicts[asset] = model.overdraft_verdict(upto) if upto else ("accept", None)
            global_over = global_over or model.overspend_somewhere(txs)
            out.classes.add(f"e2e_verdict_{verdicts[asset][0]}")
        where = f"[end-to-end: rp2_{case['country']} from={case.get('from')} to={case.get('to')} {'-n' if allow else ''}]"
        text = result.text
        if any(v[0] == "undecided" for v in verdicts.values()):
            out.skipped = "undecided(tolerance band)"
            return out
        rejecting = {a: v for a, v in verdicts.items() if v[0] == "reject"}
        if rejecting and not allow:
            out.nontrivial = True
            reports = [n for n in result.files if n.endswith(".ods")]
            if result.rc == 0:
                out.fail("overdraft_not_rejected", f"{where} account {sorted(rejecting.items())} ends an instant below -1e-10, yet the run exits 0 and wrote {result.files}")
            elif reports:
                out.fail("report_written_despite_overdraft", f"{where} exit status {result.rc} but the output directory holds {reports}")
            elif "went negative" in text:
                named = any(f'account "{who[0]}"' in text and f'holder "{who[1]}"' in text for _, (_, who) in rejecting.items() if who)
                candidates = set()
                for asset in rejecting:
                    candidates |= negative_accounts([t for t in model.make_txs(rows_model[asset]) if to_d is None or t.day <= to_d])
                if not named and not any(f'account "{ex}"' in text and f'holder "{ho}"' in text for ex, ho in candidates):
                    out.fail("error_names_wrong_account", f"{where} the error names an account that is never negative; negative accounts: {sorted(candidates)}; error: {[l for l in text.splitlines() if 'went negative' in l][:1]}")
            elif not global_over:
                out.fail("error_does_not_name_account", f"{where} rejected without naming the overdrawn account: {text.strip().splitlines()[-1:]}")
            return out
        # nothing must be rejected (no overdraft, or -n)
        if result.rc != 0:
            if global_over:
                out.skipped = "whole_holding_overspent(C02)"
                return out
            if "went negative" in text or not rejecting:
                clause = "rejected_despite_n" if rejecting else "no_overdraft_but_rejected"
                line = [l for l in text.splitlines() if "went negative" in l or "Error" in l][-1:]
                out.fail(clause, f"{where} no account's balance is below zero at any moment up to the to-date{' (or -n is given)' if allow else ''}, yet the run exits with {result.rc}: {line}")
            else:
                out.skipped = "e2e_run_failed(C16)"
            return out
        if dumps is None:
            out.skipped = "e2e_run_failed(C16)"
            return out
        for asset, dump in dumps.items():
            if not dump["ok"]:
                out.skipped = "e2e_report_not_relatable(C13)"
                return out
            txs = model.make_txs(rows_model[asset])
            expected = model.account_flows(txs, to_d)
            reported = {(b["ex"], b["ho"]): b["final"] for b in dump["balances"]}
            for key, flows in expected.items():
                if reported.get(key) != flows.final:
                    out.fail("balance_not_reported" if flows.final >= 0 else "negative_balance_not_reported", f"{where} asset {asset} account {key}: final balance from the rows up to the to-date = {flows.final}, the report shows {reported.get(key)}")
                    return out
            if any(f.final < 0 for f in expected.values()):
                out.nontrivial = True
                out.classes.add("e2e_negative_final_reported")
    finally:
        cli_common.cleanup(folder)
    return out


@st.composite
def strategy_case(draw: Any) -> Dict[str, Any]:
    allow = draw(st.booleans())
    case = draw(engine_case(CFG, allow_negative=allow))
    case["overdraft"] = None
    kind = draw(st.integers(0, 7))
    if kind <= 4:
        case["overdraft"] = draw(inject_overdraft(case))
    elif kind <= 6:
        case["same_instant"] = draw(add_same_instant_dependency(case))
    if draw(st.booleans()):
        draw(permute_row_numbers(case))
        case["rows_permuted"] = True
    return case


@st.composite
def add_same_instant_dependency(draw: Any, case: Dict[str, Any]) -> Optional[str]:
    """Append a debit that empties the destination account of a transfer *at the transfer's own timestamp* (day-granularity
    records: deposit and sale carry the same time): never negative at any moment, but covered only by the same-instant credit.
    Chosen so that nothing later debits that account.  Returns 'out' / 'intra' (what was appended) or None."""
    rows = case["rows"]
    txs = model.make_txs(rows)
    candidates = []
    for t in txs:
        if t.table != "intra" or (t.from_ex, t.from_ho) == (t.to_ex, t.to_ho) or t.received <= 0:
            continue
        acc = (t.to_ex, t.to_ho)
        touched_later = any(
            u.us >= t.us and u is not t and ((u.table == "out" and (u.ex, u.ho) == acc) or (u.table == "intra" and acc in ((u.from_ex, u.from_ho), (u.to_ex, u.to_ho))) or (u.table == "in" and (u.ex, u.ho) == acc and u.us == t.us))
            for u in txs
        )
        if not touched_later:
            candidates.append(t)
    if not candidates:
        return None
    t = draw(st.sampled_from(candidates))
    acc = (t.to_ex, t.to_ho)
    balance = model.account_flows([u for u in txs if u.us <= t.us], None)[acc].final
    if balance <= 0:
        return None
    amount = balance if draw(st.booleans()) else max(Fraction(1, 10**11), balance - t.received / 2)
    kind = draw(st.sampled_from(["out", "out", "intra"]))
    next_row = max(u.row for u in txs) + 1
    if kind == "out":
        rows.append({"table": "out", "row": next_row, "ts": t.ts, "ex": acc[0], "ho": acc[1], "type": draw(st.sampled_from(["sell", "gift", "fee"])), "price": "7.5", "out": "0", "fee": "0", "uid": "same-instant"})
        field = "fee" if rows[-1]["type"] == "fee" else "out"
        rows[-1][field] = gen._frac_to_str(amount)
    else:
        others = [(e, h) for e in case["exchanges"] for h in case["holders"] if (e, h) != acc]
        if not others:
            return None
        dest = draw(st.sampled_from(others))
        rows.append({"table": "intra", "row": next_row, "ts": t.ts, "from_ex": acc[0], "from_ho": acc[1], "to_ex": dest[0], "to_ho": dest[1], "price": "7.5", "sent": gen._frac_to_str(amount), "received": gen._frac_to_str(amount), "uid": "same-instant"})
    return kind


def strategy(tier: str) -> Any:
    return strategy_case()


def negative_accounts(txs: List[model.Tx]) -> Set[Tuple[str, str]]:
    """Accounts whose balance can be observed below zero right after one of their debits under some order."""
    by_us: Dict[int, List[model.Tx]] = {}
    for t in txs:
        by_us.setdefault(t.us, []).append(t)
    bal: Dict[Tuple[str, str], Fraction] = {}
    result: Set[Tuple[str, str]] = set()
    for us in sorted(by_us):
        credits: Dict[Tuple[str, str], Fraction] = {}
        transfers_in: Dict[Tuple[str, str], Fraction] = {}
        debits: Dict[Tuple[str, str], Fraction] = {}
        for t in by_us[us]:
            if t.table == "in":
                credits[(t.ex, t.ho)] = credits.get((t.ex, t.ho), Fraction(0)) + t.crypto_in
            elif t.table == "out":
                debits[(t.ex, t.ho)] = debits.get((t.ex, t.ho), Fraction(0)) + t.out + t.fee
            else:
                debits[(t.from_ex, t.from_ho)] = debits.get((t.from_ex, t.from_ho), Fraction(0)) + t.sent
                transfers_in[(t.to_ex, t.to_ho)] = transfers_in.get((t.to_ex, t.to_ho), Fraction(0)) + t.received
        for acc in set(credits) | set(transfers_in) | set(debits):
            start = bal.get(acc, Fraction(0))
            low = start + credits.get(acc, Fraction(0)) - debits.get(acc, Fraction(0))
            bal[acc] = low + transfers_in.get(acc, Fraction(0))
            if acc in debits and low < 0:
                result.add(acc)
    return result


def evaluate(case: Dict[str, Any]) -> Outcome:
    if case.get("e2e"):
        return evaluate_e2e(case)
    out = Outcome()
    txs = model.make_txs(case["rows"])
    out.classes |= history_classes(txs, case["schedule"])
    verdict, who = model.overdraft_verdict(txs)
    global_over = model.overspend_somewhere(txs)
    allow = bool(case["allow_negative"])
    out.classes.add(f"verdict_{verdict}")
    out.classes.add("with_n" if allow else "without_n")
    info = case.get("overdraft")
    if info:
        if info["refilled"]:
            out.classes.add("transient_overdraft")
        if model.F(info["depth"]) < Fraction(1, 10**8):
            out.classes.add("dust_overdraft")
    if case.get("rows_permuted"):
        out.classes.add("rows_permuted")
    dump = drive_api.run_case(case)
    if allow:
        # the run proceeds and reports the negative balance
        if not dump["ok"]:
            if global_over:
                out.skipped = "whole_holding_overspent(C02)"
            else:
                out.fail("rejected_despite_n", f"allow_negative_balances is set, yet the run failed with {dump['error_type']}: {dump['error'][:300]}")
            return out
        expected = model.account_flows(txs, None)
        reported = {(b["ex"], b["ho"]): b["final"] for b in dump["balances"]}
        for key, flows in expected.items():
            if reported.get(key) != flows.final:
                out.fail("negative_balance_not_reported", f"account {key}: model final balance {flows.final}, reported {reported.get(key)}")
                return out
        if any(f.final < 0 for f in expected.values()):
            out.nontrivial = True
            out.classes.add("negative_final_reported")
        return out
    if case.get("same_instant"):
        out.classes.add(f"same_instant_debit_appended_{case['same_instant']}")
    if verdict == "undecided":
        out.skipped = "undecided(tolerance band)"
        return out
    if verdict == "reject":
        finals = model.account_flows(txs, None)
        if who is not None and finals[who].final >= 0:
            out.nontrivial = True
            out.classes.add("decided_transient")
        if info and model.F(info["depth"]) < Fraction(1, 10**8):
            out.nontrivial = True
        if len({t.us for t in txs}) < len(txs):
            out.nontrivial = True
        if dump["ok"]:
            out.fail("overdraft_not_rejected", f"account {who} ends an instant below -1e-10, allow_negative_balances is off, yet compute_tax succeeded")
            return out
        if dump["error_type"] != "RP2ValueError":
            out.fail("overdraft_wrong_error", f"expected RP2ValueError, got {dump['error_type']}: {dump['error'][:300]}")
            return out
        if "went negative" in dump["error"]:
            candidates = negative_accounts(txs)
            if not any(f'account "{ex}"' in dump["error"] and f'holder "{ho}"' in dump["error"] for ex, ho in candidates):
                out.fail("error_names_wrong_account", f"error names an account that is never negative; negative accounts: {sorted(candidates)}; error: {dump['error'][:200]}")
        elif not global_over:
            out.fail("error_does_not_name_account", f"rejected, but the error does not name the overdrawn account {who}: {dump['error'][:300]}")
        return out
    # verdict == accept / accept_same_instant
    if verdict == "accept_same_instant":
        out.nontrivial = True
    if not dump["ok"]:
        if global_over:
            out.skipped = "whole_holding_overspent(C02)"
            return out
        why = "" if verdict == "accept" else f" (account {who} is debited and credited by a transfer at the same instant; its balance at that moment in time is >= 0)"
        out.fail("no_overdraft_but_rejected", f"no account ever goes negative{why}, yet the run failed with {dump['error_type']}: {dump['error'][:300]}")
        return out
    return out


def known_signature(case: Dict[str, Any], clause: str, detail: str) -> Optional[str]:
    """F12: a same-instant transfer chain A->X->B rejected because the row of X->B precedes the row of A->X."""
    if clause != "no_overdraft_but_rejected" or "IntraTransaction" not in detail:
        return None
    if case.get("e2e"):
        histories = [model.make_txs(rows) for rows in filegen.case_post_rows(copy.deepcopy(case)).values()]
    else:
        histories = [model.make_txs(copy.deepcopy(case["rows"]))]
    for txs in histories:
        for ex, ho in model.same_instant_transfer_chain_accounts(txs):
            if f'account "{ex}"' in detail and f'holder "{ho}"' in detail:
                return "F12_same_instant_transfer_chain_order"
    return None
