"""C06 - the yearly gain/loss summary equals the sum of its detail fractions.

Oracle: re-sum the returned detail fractions (run limited by the to-date only, so every fraction dated up to the
to-date is present) by (event's own local year, asset, transaction type, long/short) and compare with
`yearly_gain_loss_list` as a map: one line per key, no line without fractions, four sums each; with a from-date the
list is the same restricted to years >= the from-date's year.  (The detail itself is tied to the input by C01-C05.)
"""
from __future__ import annotations

from fractions import Fraction
from typing import Any, Dict, List, Optional, Tuple

from hypothesis import strategies as st

from .. import drive_api, e2e, gen, model
from ..engine_common import engine_case, history_classes
from ..runner import Outcome

ID = "C06"
LEVEL = "exploration"
RULE = (
    "Constructed date-monotone histories of 6-20 transactions spanning up to 6 years (year-scale gaps, 365-day "
    "attractors so that one sale has long and short fractions, year-boundary instants whose local year differs from the "
    "UTC year), all types, x methods x schedules x random to-date (incl. none) x random from-date. Oracle: independent "
    "re-summation of the detail fractions by (own local year, asset, type, long). Non-trivial = >= 2 years with fractions "
    "and a key with >= 2 fractions; distinct by case hash."
)
ASSUMPTIONS = [
    "histories are date-monotone (R3): local dates non-decreasing in instant order, so 'dated up to the to-date' is unambiguous",
    "sums compared to 1e-25 relative (RP2Decimal additions round at 31 significant digits)",
]
RULE += e2e.RULE_SUFFIX

CFG = gen.GenCfg(min_steps=6, max_steps=20, long_gaps=True)
REL = Fraction(1, 10**25)


def budget(tier: str) -> Dict[str, Any]:
    return {"shards": 16, "examples": 1000 if tier == "quick" else 15000, "examples2": 8 if tier == "quick" else 150}


@st.composite
def strategy_case(draw: Any) -> Dict[str, Any]:
    case = draw(engine_case(CFG))
    txs = model.make_txs(case["rows"])
    case["to"] = draw(gen.window_date(txs)) if draw(st.integers(0, 2)) else None
    case["from"] = draw(gen.window_date(txs)) if draw(st.integers(0, 2)) == 0 else None
    if case["from"] and case["to"] and case["from"] > case["to"]:
        case["from"], case["to"] = case["to"], case["from"]
    return case


def strategy(tier: str) -> Any:
    return strategy_case()


Key = Tuple[int, str, str, bool]


def resum(asset: str, txs: List[model.Tx], fractions: List[Dict[str, Any]]) -> Tuple[Dict[Key, List[Fraction]], Dict[Key, int]]:
    by_row = {t.row: t for t in txs}
    sums: Dict[Key, List[Fraction]] = {}
    counts: Dict[Key, int] = {}
    for fraction in fractions:
        event = by_row[fraction["ev"]]
        key = (event.year, asset, event.type, bool(fraction["long"]))
        acc = sums.setdefault(key, [Fraction(0)] * 4)
        sums[key] = [acc[0] + fraction["amount"], acc[1] + fraction["proceeds"], acc[2] + fraction["basis"], acc[3] + fraction["gain"]]
        counts[key] = counts.get(key, 0) + 1
    return sums, counts


def compare_yearly(out: Outcome, expected: Dict[Key, List[Fraction]], yearly: List[Dict[str, Any]], label: str, rel: Fraction = REL) -> None:
    seen: Dict[Key, List[Fraction]] = {}
    for line in yearly:
        key = (line["year"], line["asset"], line["type"], bool(line["long"]))
        if key in seen:
            out.fail("yearly_line_duplicated", f"{label}: two summary lines for key {key}")
            return
        seen[key] = [line["crypto"], line["fiat"], line["basis"], line["gain"]]
    if set(seen) != set(expected):
        out.fail(
            "yearly_keys_mismatch",
            f"{label}: summary has keys {sorted(seen)}, detail fractions have {sorted(expected)} "
            f"(lines without fractions: {sorted(set(seen) - set(expected))}; fractions without line: {sorted(set(expected) - set(seen))})",
        )
        return
    names = ("crypto amount", "proceeds", "cost basis", "gain")
    for key, values in expected.items():
        for i, name in enumerate(names):
            exp = values[i]
            got = seen[key][i]
            scale = max(abs(exp), abs(values[1]), abs(values[2]), Fraction(1, 10**20))
            if abs(got - exp) > rel * scale:
                out.fail("yearly_sum_mismatch", f"{label}: line {key}: {name} = {got}, sum over its detail fractions = {exp}")
                return


E2E_HIST = gen.GenCfg(min_steps=6, max_steps=16, max_exchanges=2, max_holders=2, long_gaps=True, bulk_prob=0.02)
E2E_REL = Fraction(1, 10**11)  # cells of the summary table are doubles


def e2e_judge(out: Outcome, asset: str, txs: List[model.Tx], dump: Dict[str, Any]) -> None:
    """'Gain / Loss Summary' of the asset's Tax sheet, and the asset's lines on the 'Summary' sheet, against the re-summed 'Gain / Loss Detail' rows of the same report (year
    and type taken from the generated row of the event, LONG / SHORT from the detail row)."""
    expected, counts = resum(asset, txs, dump["fractions"])
    compare_yearly(out, expected, dump["yearly"], "report summary vs report detail", rel=E2E_REL)
    if not out.violations and dump.get("summary_sheet") is not None:
        out.classes.add("e2e_summary_sheet_lines_compared")
        compare_yearly(out, expected, dump["summary_sheet"], "'Summary' sheet vs report detail", rel=E2E_REL)
    if len({k[0] for k in expected}) >= 2 and any(n >= 2 for n in counts.values()):
        out.nontrivial = True
    if any((k[0], k[1], k[2], not k[3]) in expected for k in expected):
        out.classes.add("long_and_short_in_same_year_and_type")


def strategy2(tier: str) -> Any:
    """End-to-end tier (rp2v/e2e.py): real runs with and without a to-date; summary lines vs sums over the detail rows."""
    return e2e.file_strategy(E2E_HIST, countries=("us", "us", "generic", "ie", "jp"), to_dates=True)


def minimize(case: Dict[str, Any], clause: str) -> Dict[str, Any]:
    return e2e.minimize(case, clause, evaluate) if case.get("e2e") else case


def evaluate(case: Dict[str, Any]) -> Outcome:
    if case.get("e2e"):
        return e2e.evaluate_assets(case, "c06e", lambda out, asset, txs, dump, schedule: e2e_judge(out, asset, txs, dump))
    out = Outcome()
    txs = model.make_txs(case["rows"])
    out.classes |= history_classes(txs, case["schedule"])
    if not model.is_date_monotone(txs):
        out.skipped = "non_monotone_dates(R3)"
        return out
    to_date = case.get("to")
    from_date = case.get("from")
    base = drive_api.run_case(case, from_date="", to_date=to_date or "")
    if not base["ok"]:
        out.fail("valid_history_rejected", f"{base['error_type']}: {base['error'][:300]}")
        return out
    to_d = model.parse_date(to_date)
    by_row = {t.row: t for t in txs}
    # every fraction returned by the to-date-only run is dated <= to-date (C10 checks the filtering itself)
    for fraction in base["fractions"]:
        if to_d is not None and by_row[fraction["ev"]].day > to_d:
            out.fail("fraction_after_to_date", f"fraction of event row {fraction['ev']} dated {by_row[fraction['ev']].day} is after the to-date {to_d}")
            return out
    expected, counts = resum(case["asset"], txs, base["fractions"])
    compare_yearly(out, expected, base["yearly"], f"to={to_date}")
    years = {k[0] for k in expected}
    if len(years) >= 2 and any(n >= 2 for n in counts.values()):
        out.nontrivial = True
    if any((k[0], k[1], k[2], not k[3]) in expected for k in expected):
        out.classes.add("long_and_short_in_same_year_and_type")
    if to_d is not None and any(t.day > to_d for t in txs):
        out.classes.add("to_date_inside_history")
    if out.violations:
        return out
    # grand totals per asset equal the totals of the detail table
    for i, name in enumerate(("crypto", "fiat", "basis", "gain")):
        total_lines = sum((line[name] for line in base["yearly"]), Fraction(0))
        field = ("amount", "proceeds", "basis", "gain")[i]
        total_detail = sum((f[field] for f in base["fractions"]), Fraction(0))
        scale = max(abs(total_detail), sum((abs(f["proceeds"]) + abs(f["basis"]) for f in base["fractions"]), Fraction(0)), Fraction(1, 10**20))
        if abs(total_lines - total_detail) > REL * scale:
            out.fail("grand_total_mismatch", f"sum of summary lines ({name}) = {total_lines}, total of the detail table = {total_detail}")
            return out
    if from_date is not None:
        out.classes.add("with_from_date")
        filtered = drive_api.run_case(case, from_date=from_date, to_date=to_date or "")
        if not filtered["ok"]:
            out.fail("valid_history_rejected", f"with from-date {from_date}: {filtered['error_type']}: {filtered['error'][:300]}")
            return out
        from_year = model.parse_date(from_date).year
        restricted = {k: v for k, v in expected.items() if k[0] >= from_year}
        compare_yearly(out, restricted, filtered["yearly"], f"from={from_date} to={to_date}")
    return out
