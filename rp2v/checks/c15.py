"""C15 - the open-positions report matches balances and the cost of unsold lot parts.

Oracle (conservation law, independent of the report code): per asset U = sum over lots dated <= to-date of
K(lot) * unconsumed/amount, where consumption comes from the window's gain/loss fractions; 'Asset' sheet: one row per
(asset with U > 0, holder with a positive total) with balance = sum of that holder's positive final balances, per-unit
cost = U / total balance, row costs adding up to U; 'Asset - Exchange': one row per account with a positive final
balance; cost-basis weights add up to 1; realised basis + U = total cost of everything acquired.
"""
from __future__ import annotations

import os
from datetime import date
from fractions import Fraction
from typing import Any, Dict, List, Optional, Tuple

from hypothesis import strategies as st

from .. import cli, cli_common, drive_api, filegen, files, gen, model, report_model
from ..report_model import cellv, num_equal, to_fraction
from ..runner import Outcome
from . import c13

ID = "C15"
LEVEL = "exploration"
RULE = (
    "Hypothesis-generated valid multi-asset (1-3), multi-holder inputs without overdrawn accounts and without from-date "
    "(flavours mixed / fully sold / income-only / buy-only / transfer-heavy), random to-date (incl. none), every method "
    "and schedule, all five entry points; one real CLI run per case, 'Asset' and 'Asset - Exchange' sheets of "
    "open_positions.ods read back. Non-trivial = an asset with a partially consumed lot and >= 2 holders with positive "
    "balances; distinct by case hash."
)
ASSUMPTIONS = [
    "sums compared to 1e-12 relative (cells are doubles); assets whose unrealised cost is below 1e-12 (dust under RP2's 13-decimal resolution) are not judged",
]

HIST = gen.GenCfg(min_steps=3, max_steps=12, max_exchanges=3, max_holders=2, bulk_prob=0.06, fiat_columns=True)
FLAVOURS = ("mixed", "mixed", "mixed", "fully_sold", "income_only", "buy_only", "transfer_heavy", "dust_on_big_lot")
REL = Fraction(1, 10**12)


def budget(tier: str) -> Dict[str, Any]:
    return {"shards": 16, "examples": 13 if tier == "quick" else 200, "shrink": False}


@st.composite
def strategy_case(draw: Any) -> Dict[str, Any]:
    case = draw(filegen.file_case(countries=cli.COUNTRIES, hist=HIST, allow_from=False, flavours=FLAVOURS))
    case["from"] = None
    if draw(st.integers(0, 3)) == 0:
        boundary = draw(filegen.boundary_to_date(case))
        if boundary:
            case["to"] = boundary
            case["to_on_utc_boundary"] = True
    return case


def strategy(tier: str) -> Any:
    return strategy_case()


def close(a: Optional[Fraction], b: Fraction, scale: Optional[Fraction] = None, slack: Fraction = Fraction(0)) -> bool:
    """Relative agreement, plus an absolute `slack` for cost that sits below rp2's 13-decimal resolution (R13): the unconsumed
    part of a lot worth less than 1e-13 fiat compares equal to zero in rp2 and is left out of the unsold cost by design."""
    if a is None:
        return False
    return abs(a - b) <= REL * max(abs(b), scale or 0, Fraction(1, 10**9)) + slack


def data_rows(rows: List[List[files.Cell]], header_rows: int, total_words: Tuple[str, ...]) -> List[Tuple[int, List[files.Cell]]]:
    result = []
    for i in range(header_rows, len(rows)):
        row = rows[i]
        first = cellv(row, 0)
        if first in (None, ""):
            continue
        if first in total_words:
            continue
        result.append((i, row))
    return result


def evaluate(case: Dict[str, Any]) -> Outcome:
    out = Outcome()
    lang = c13.effective_lang(case)
    out.classes.add(f"{case['country']}/{lang}")
    out.classes |= cli_common.volume_classes(case)
    folder = cli_common.work_dir("c15")
    try:
        result, reference, outdir, rows_model = c13.run_and_reference(case, folder)
        if result.rc != 0 or reference is None or not reference.get("ok"):
            bucket = cli_common.aborted_in(result.text, "plugin/report/open_positions.py") if result.rc != 0 else None
            if bucket:
                out.fail("open_positions_generation_aborted", f"rp2_{case['country']} exited {result.rc} while writing the report: {bucket}")
                return out
            out.skipped = "run_failed(C16)"
            return out
        to_d = model.parse_date(case.get("to"))
        if case.get("to_on_utc_boundary"):
            out.classes.add("to_date_between_own_and_utc_date_of_a_transaction")
        if to_d is not None:
            out.classes.add("with_to_date")
            # what has been consumed up to the to-date is selected here, by the event's own date, from a run without a to-date
            # (C09 / C10 guarantee identical fractions): a defect in rp2's to-date filtering would otherwise hide the same disposals
            # from this reference and from the report alike
            ini, ods = os.path.join(folder, "input.ini"), os.path.join(folder, "input.ods")
            unfiltered = drive_api.compute_files(
                ini, ods, case["country"], schedule=cli_common.schedule_of(case), long_term_days=case.get("long_term_days"), from_date=None, to_date=None,
                allow_negative=bool(case.get("allow_negative")), assets=[case["asset_opt"]] if case.get("asset_opt") else None,
            )
            if unfiltered.get("ok"):
                for asset in reference["assets"]:
                    reference["assets"][asset]["fractions"] = [f for f in unfiltered["assets"][asset]["fractions"] if date(*f["ev_date"]) <= to_d]
        label = cli.method_label(case.get("method"), case.get("schedule"), case["country"])
        path = os.path.join(outdir, f"{case.get('prefix') or ''}{label}_open_positions.ods")
        t = report_model.translator(lang)
        if not os.path.exists(path):
            out.fail("open_positions_not_written", f"rp2_{case['country']} exited 0 but {os.path.basename(path)} is not in the output directory ({result.files})")
            return out
        sheets = files.read_ods(path)
        for name in (t("Asset"), t("Asset - Exchange")):
            if name not in sheets:
                out.fail("sheet_missing", f"open_positions.ods has sheets {list(sheets)}, '{name}' missing")
                return out
        totals_words = (t("Total"), t("Grand Total"))
        asset_rows = data_rows(sheets[t("Asset")], 3, totals_words)
        exchange_rows = data_rows(sheets[t("Asset - Exchange")], 3, totals_words)
        # ---- model
        expected_asset_rows: Dict[Tuple[str, str], Dict[str, Fraction]] = {}
        expected_exchange_rows: Dict[Tuple[str, str, str], Fraction] = {}
        unrealised: Dict[str, Fraction] = {}
        dust_assets = set()
        dust_slack: Dict[str, Fraction] = {}
        for asset in sorted(reference["assets"]):
            ref = reference["assets"][asset]
            txs = model.make_txs(rows_model[asset])
            lots = [tx for tx in txs if tx.is_lot and (to_d is None or tx.day <= to_d)]
            consumed: Dict[int, Fraction] = {}
            realised = Fraction(0)
            for f in ref["fractions"]:
                if f["lot"] is not None:
                    consumed[f["lot"]] = consumed.get(f["lot"], Fraction(0)) + f["amount"]
                    realised += f["basis"]
            u = sum((lot.lot_cost * (lot.crypto_in - consumed.get(lot.row, Fraction(0))) / lot.crypto_in for lot in lots), Fraction(0))
            total_cost = sum((lot.lot_cost for lot in lots), Fraction(0))
            if abs(realised + u - total_cost) > Fraction(1, 10**20) * max(total_cost, 1):
                out.fail("realised_plus_unrealised_cost", f"{asset}: realised basis {realised} + unrealised {u} != total cost of everything acquired {total_cost}")
                return out
            if any(0 < consumed.get(lot.row, Fraction(0)) < lot.crypto_in for lot in lots):
                out.classes.add("partially_consumed_lot")
            # balances come from the generated rows (flows of each account up to the to-date), not from rp2's own balance set
            flows = model.account_flows(txs, to_d)
            balances = [{"ex": ex, "ho": ho, "final": flow.final} for (ex, ho), flow in sorted(flows.items())]
            computed = {(b["ex"], b["ho"]): b["final"] for b in ref["balances"]}
            if computed != {(b["ex"], b["ho"]): b["final"] for b in balances}:
                out.classes.add("computed_balances_differ_from_flows(C07)")
            positive = [b for b in balances if b["final"] > 0]
            if any(b["final"] < 0 for b in balances):
                out.skipped = "overdrawn_account"
                return out
            if u <= 0:
                out.classes.add("asset_fully_sold_or_nothing_unsold")
                continue
            if u < Fraction(1, 10**12):
                dust_assets.add(asset)
                continue
            unrealised[asset] = u
            dust_slack[asset] = len(lots) * Fraction(1, 10**13)
            total_balance = sum((b["final"] for b in positive), Fraction(0))
            holders: Dict[str, Fraction] = {}
            for b in positive:
                holders[b["ho"]] = holders.get(b["ho"], Fraction(0)) + b["final"]
                expected_exchange_rows[(asset, b["ho"], b["ex"])] = b["final"]
            for holder, balance in holders.items():
                expected_asset_rows[(asset, holder)] = {"balance": balance, "unit": u / total_balance, "cost": balance * u / total_balance, "unit_slack": dust_slack[asset] / total_balance}
            if len(holders) >= 2 and any(0 < consumed.get(lot.row, Fraction(0)) < lot.crypto_in for lot in lots):
                out.nontrivial = True
        total_u = sum(unrealised.values(), Fraction(0))
        # ---- 'Asset' sheet
        shown = {}
        for row_i, row in asset_rows:
            key = (str(cellv(row, 0)), str(cellv(row, 1)))
            if key[0] in dust_assets:
                continue
            if key in shown:
                out.fail("asset_row_duplicated", f"sheet '{t('Asset')}': two rows for asset/holder {key}")
                return out
            shown[key] = (row_i, row)
        if set(shown) != set(expected_asset_rows):
            out.fail(
                "asset_rows_mismatch",
                f"sheet '{t('Asset')}' lists (asset, holder) {sorted(shown)}; assets with unsold holdings x holders with a positive balance are {sorted(expected_asset_rows)}",
            )
            return out
        weight_sum = Fraction(0)
        per_asset_cost: Dict[str, Fraction] = {}
        for key, exp in expected_asset_rows.items():
            row_i, row = shown[key]
            where = f"sheet '{t('Asset')}' row {row_i + 1} {key}"
            if not num_equal(cellv(row, 2), exp["balance"]):
                out.fail("open_position_balance", f"{where}: crypto balance {cellv(row, 2)!r}, computed balance {exp['balance']}")
                return out
            if not close(to_fraction(cellv(row, 3)), exp["unit"], slack=exp["unit_slack"]):
                out.fail("open_position_unit_cost", f"{where}: per-unit cost {cellv(row, 3)!r}, unrealised cost / total balance = {float(exp['unit'])!r}")
                return out
            if not close(to_fraction(cellv(row, 4)), exp["cost"], total_u, slack=dust_slack[key[0]]):
                out.fail("open_position_cost_basis", f"{where}: cost basis {cellv(row, 4)!r}, expected {float(exp['cost'])!r}")
                return out
            if not close(to_fraction(cellv(row, 5)), exp["cost"] / total_u, Fraction(1), slack=sum(dust_slack.values(), Fraction(0)) / total_u):
                out.fail("open_position_weight", f"{where}: cost-basis weight {cellv(row, 5)!r}, expected {float(exp['cost'] / total_u)!r}")
                return out
            weight_sum += to_fraction(cellv(row, 5))
            per_asset_cost[key[0]] = per_asset_cost.get(key[0], Fraction(0)) + to_fraction(cellv(row, 4))
        for asset, u in unrealised.items():
            if not close(per_asset_cost.get(asset), u, total_u, slack=dust_slack[asset]):
                out.fail("asset_cost_does_not_add_up", f"{asset}: cost bases of its rows add to {float(per_asset_cost.get(asset, 0))!r}, cost of the unconsumed lot parts is {float(u)!r}")
                return out
        if expected_asset_rows and abs(weight_sum - 1) > Fraction(1, 10**10):
            out.fail("weights_do_not_add_to_one", f"sheet '{t('Asset')}': cost-basis weights add up to {float(weight_sum)!r}")
            return out
        # ---- 'Asset - Exchange' sheet
        shown_ex = {}
        for row_i, row in exchange_rows:
            key3 = (str(cellv(row, 0)), str(cellv(row, 1)), str(cellv(row, 2)))
            if key3[0] in dust_assets:
                continue
            if key3 in shown_ex:
                out.fail("asset_exchange_row_duplicated", f"sheet '{t('Asset - Exchange')}': two rows for {key3}")
                return out
            shown_ex[key3] = (row_i, row)
        if set(shown_ex) != set(expected_exchange_rows):
            out.fail(
                "asset_exchange_rows_mismatch",
                f"sheet '{t('Asset - Exchange')}' lists {sorted(shown_ex)}; accounts with a positive final balance are {sorted(expected_exchange_rows)}",
            )
            return out
        weight_sum = Fraction(0)
        for key3, balance in expected_exchange_rows.items():
            row_i, row = shown_ex[key3]
            where = f"sheet '{t('Asset - Exchange')}' row {row_i + 1} {key3}"
            unit = expected_asset_rows[(key3[0], key3[1])]["unit"]
            unit_slack = expected_asset_rows[(key3[0], key3[1])]["unit_slack"]
            if not num_equal(cellv(row, 3), balance):
                out.fail("open_position_balance", f"{where}: crypto balance {cellv(row, 3)!r}, computed balance {balance}")
                return out
            if not close(to_fraction(cellv(row, 4)), unit, slack=unit_slack):
                out.fail("open_position_unit_cost", f"{where}: per-unit cost {cellv(row, 4)!r}, expected {float(unit)!r}")
                return out
            if not close(to_fraction(cellv(row, 5)), balance * unit, total_u, slack=dust_slack[key3[0]]):
                out.fail("open_position_cost_basis", f"{where}: cost basis {cellv(row, 5)!r}, expected {float(balance * unit)!r}")
                return out
            weight_sum += to_fraction(cellv(row, 6)) or Fraction(0)
        if expected_exchange_rows and abs(weight_sum - 1) > Fraction(1, 10**10):
            out.fail("weights_do_not_add_to_one", f"sheet '{t('Asset - Exchange')}': cost-basis weights add up to {float(weight_sum)!r}")
            return out
        if len(unrealised) >= 2:
            out.classes.add("several_assets_with_open_positions")
    finally:
        cli_common.cleanup(folder)
    return out


def minimize(case: Dict[str, Any], clause: str) -> Dict[str, Any]:
    def still_fails(candidate: Dict[str, Any]) -> bool:
        return any(c == clause for c, _ in evaluate(candidate).violations)

    return cli_common.minimize(case, still_fails, budget=30)
