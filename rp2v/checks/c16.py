"""C16 - every supported option combination runs to completion on every valid input.

Oracle: exit status 0, no traceback / 'Fatal exception' in the output, every report of the country's generator set
exists under the expected name and is a readable ODS.  Failures are bucketed by (exception, innermost rp2 frame).
"""
from __future__ import annotations

import os
from typing import Any, Dict, List, Optional

from hypothesis import strategies as st

from .. import cli, cli_common, filegen, files, gen, model
from ..runner import Outcome

ID = "C16"
LEVEL = "exploration"
RULE = (
    "Hypothesis-generated valid inputs (1-3 assets; flavours mixed / income-only / buy-only / fully sold / "
    "transfer-heavy / disposal-heavy years; sparse years; all 14 types) crossed with the option matrix: entry point "
    "{us, es, ie, jp, generic(+env)} x method {each accepted -m, none, [accounting_methods] of 1-4 entries} x language "
    "{each shipped template language, none = country default} x window {none, from, to, from+to, from==to; positions on / "
    "around / between / before / after transaction dates, year edges, mid-year} x -n x -a x -p; each case is one real run "
    "of /venv/bin/rp2_<country> in a fresh process. Non-trivial = a cell with a filter, a non-default method or an "
    "explicit language; distinct by case hash; matrix_cells lists the distinct option tuples covered."
)
ASSUMPTIONS = [
    "JP with both -f and -t is an explicitly refused combination (R11) and is not part of the supported matrix",
    "the first year of an [accounting_methods] schedule is <= the first year of the history (R10)",
]

HIST = gen.GenCfg(min_steps=2, max_steps=10, max_exchanges=2, max_holders=2, bulk_prob=0.08, fiat_columns=True, big_lots=True, fiat_only_out_fee=True)
FLAVOURS = ("mixed", "mixed", "income_only", "buy_only", "fully_sold", "transfer_heavy", "disposal_years", "dust_on_big_lot", "tied_fills")


def budget(tier: str) -> Dict[str, Any]:
    return {"shards": 16, "examples": 22 if tier == "quick" else 400, "shrink": False}


@st.composite
def strategy_case(draw: Any) -> Dict[str, Any]:
    case = draw(filegen.file_case(countries=cli.COUNTRIES, hist=HIST, flavours=FLAVOURS, single_entry_schedules=True, force_all_types=draw(st.booleans()), numeric_uids=True))
    if case["country"] == "jp" and draw(st.booleans()):
        case["lang"] = None if draw(st.booleans()) else case["lang"]  # also the country's default language
    if draw(st.integers(0, 3)) == 0:
        case["allow_negative"] = True
    if len(case["assets"]) > 1 and draw(st.integers(0, 3)) == 0:
        case["asset_opt"] = draw(st.sampled_from(sorted(case["assets"])))
    if draw(st.integers(0, 5)) == 0:
        case["prefix"] = draw(st.sampled_from(["x_", "2024-", "my report "]))
    if draw(st.integers(0, 5)) == 0:
        case["generators_field"] = True  # [general] generators = <the country's generators>
    return case


def strategy(tier: str) -> Any:
    return strategy_case()


def option_tuple(case: Dict[str, Any]) -> str:
    window = ("from" if case.get("from") else "") + ("+" if case.get("from") and case.get("to") else "") + ("to" if case.get("to") else "") or "none"
    method = f"-m {case['method']}" if case.get("method") else (f"schedule[{len(case['schedule'])}]" if case.get("schedule") else "default")
    return f"{case['country']}|{method}|lang={case.get('lang') or 'default'}|{window}|n={int(bool(case.get('allow_negative')))}|a={int(bool(case.get('asset_opt')))}"


def check_run(out: Outcome, case: Dict[str, Any], result: cli.CliResult, outdir: str) -> None:
    bucket = cli_common.crash_bucket(result.text)
    if result.rc != 0 or bucket or "Fatal exception" in result.text:
        tail = [line for line in result.err.strip().splitlines() if not line.startswith("  ")][-3:]
        out.fail(f"run_aborted:{bucket or 'exit_' + str(result.rc)}", f"{option_tuple(case)}: exit status {result.rc}; {' | '.join(tail)[:500]}")
        return
    label = cli.method_label(case.get("method"), case.get("schedule"), case["country"])
    expected = cli.expected_report_names(case["country"], label, case.get("prefix") or "")
    missing = [name for name in expected if name not in result.files]
    if missing:
        out.fail("report_missing", f"{option_tuple(case)}: exit 0 but report(s) {missing} not written; directory holds {result.files}")
        return
    for name in expected:
        try:
            sheets = files.read_ods(os.path.join(outdir, name))
        except Exception as exc:  # pylint: disable=broad-except
            out.fail("report_unreadable", f"{name}: {type(exc).__name__}: {exc}")
            return
        if not sheets:
            out.fail("report_unreadable", f"{name} has no sheet")
            return


def evaluate(case: Dict[str, Any]) -> Outcome:
    out = Outcome()
    out.classes.add(f"country_{case['country']}")
    out.classes.add(f"cell_{option_tuple(case)}")
    out.classes |= cli_common.volume_classes(case)
    if case.get("generators_field"):
        out.classes.add("config_with_generators_field")
    if case.get("from") or case.get("to") or case.get("method") not in (None, "fifo") or case.get("schedule") or case.get("lang"):
        out.nontrivial = True
    folder = cli_common.work_dir("c16")
    try:
        result, _, _, outdir = cli_common.run_case(case, folder)
        check_run(out, case, result, outdir)
    finally:
        cli_common.cleanup(folder)
    return out


def minimize(case: Dict[str, Any], clause: str) -> Dict[str, Any]:
    def still_fails(candidate: Dict[str, Any]) -> bool:
        return any(c == clause for c, _ in evaluate(candidate).violations)

    return cli_common.minimize(case, still_fails, budget=40)
