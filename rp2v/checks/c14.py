"""C14 - the tax report lists every fraction once, on the sheet of its transaction type (US, IE).

Oracle: the sheet map is taken from the property statement; the multiset of data rows over all sheets must equal the
multiset of the window's fractions of all assets (key: sheet, asset, amount, date sold, date acquired, proceeds, basis,
gain, LONG/SHORT, type cell, ids, timestamp cell); sheets without rows are absent; no other sheet exists.
"""
from __future__ import annotations

import os
from collections import Counter
from datetime import date
from fractions import Fraction
from typing import Any, Dict, List, Optional, Tuple

from hypothesis import strategies as st

from .. import cli, cli_common, drive_api, filegen, files, gen, model, report_model
from ..report_model import cellv
from ..runner import Outcome
from . import c13

ID = "C14"
LEVEL = "exploration"
RULE = (
    "Hypothesis-generated valid inputs of 1-3 assets (2-3 in three quarters of the cases) whose IN/OUT type palettes are "
    "forced to cycle over all 14 transaction types (so that several assets share sheets), windows, US with every method "
    "and schedule, IE with FIFO; one real CLI run per case; every sheet of tax_report_us.ods / tax_report_ie.ods read back. "
    "Non-trivial = >= 2 assets on one sheet and >= 5 transaction types among the fractions; distinct by case hash."
)
ASSUMPTIONS = [
    "numbers compared after rounding to 9 significant digits (cells are doubles) inside the multiset key, then to double precision row by row",
]

HIST = gen.GenCfg(min_steps=6, max_steps=16, max_exchanges=2, max_holders=2, force_type_cycle=True, bulk_prob=0.15, fiat_columns=True)
SHEET_OF_TYPE = {
    "sell": "Capital Gains",
    "gift": "Gifts",
    "donate": "Donations",
    "fee": "Investment Expenses",
    "lost": "Investment Expenses",
    "move": "Investment Expenses",
    "airdrop": "Airdrops",
    "hardfork": "Hard Forks",
    "income": "Income",
    "interest": "Interest",
    "mining": "Mining",
    "staking": "Staking",
    "wages": "Wages",
}
HEADER_ROWS = 7


def budget(tier: str) -> Dict[str, Any]:
    return {"shards": 16, "examples": 13 if tier == "quick" else 250, "shrink": False}


@st.composite
def strategy_case(draw: Any) -> Dict[str, Any]:
    return draw(filegen.file_case(countries=("us", "us", "ie"), hist=HIST, max_assets=3, min_assets=draw(st.sampled_from([1, 2, 2, 2])), force_all_types=True))


def strategy(tier: str) -> Any:
    return strategy_case()


def sig(value: Any) -> str:
    frac = report_model.to_fraction(value)
    if frac is None:
        return "" if value in (None, "") else str(value)
    return f"{float(frac):.9e}"


def evaluate(case: Dict[str, Any]) -> Outcome:
    out = Outcome()
    country = case["country"]
    out.classes.add(f"country_{country}")
    out.classes |= cli_common.volume_classes(case)
    folder = cli_common.work_dir("c14")
    try:
        result, reference, outdir, _rows_model = c13.run_and_reference(case, folder)
        if result.rc != 0 or reference is None or not reference.get("ok"):
            bucket = cli_common.aborted_in(result.text, "/tax_report_") if result.rc != 0 else None
            if bucket:
                out.fail("tax_report_generation_aborted", f"rp2_{case['country']} exited {result.rc} while writing the report: {bucket}")
                return out
            out.skipped = "run_failed(C16)"
            return out
        if case.get("from"):
            # the window's fractions are selected here, from a run that has no from-date, by the event's own date: a defect in
            # rp2's from-date filtering would otherwise hide the same rows from the reference and from the report alike
            ini, ods = os.path.join(folder, "input.ini"), os.path.join(folder, "input.ods")
            unfiltered = drive_api.compute_files(
                ini,
                ods,
                country,
                schedule=cli_common.schedule_of(case),
                long_term_days=case.get("long_term_days"),
                from_date=None,
                to_date=case.get("to"),
                allow_negative=bool(case.get("allow_negative")),
                assets=[case["asset_opt"]] if case.get("asset_opt") else None,
            )
            if not unfiltered.get("ok"):
                out.skipped = "run_failed(C16)"
                return out
            from_d = model.parse_date(case["from"])
            for asset in unfiltered["assets"]:
                unfiltered["assets"][asset]["fractions"] = [f for f in unfiltered["assets"][asset]["fractions"] if date(*f["ev_date"]) >= from_d]
            reference = unfiltered
            out.classes.add("from_date_reference_filtered_by_own_dates")
        label = cli.method_label(case.get("method"), case.get("schedule"), country)
        path = os.path.join(outdir, f"{case.get('prefix') or ''}{label}_tax_report_{country}.ods")
        if not os.path.exists(path):
            out.fail("tax_report_not_written", f"rp2_{country} exited 0 but {os.path.basename(path)} is not in the output directory ({result.files}): none of the window's fractions is listed anywhere")
            return out
        sheets = files.read_ods(path)
        fmt = report_model.us_date if country == "us" else report_model.ie_date
        expected: Counter = Counter()
        expected_rows: Dict[Tuple[Any, ...], Dict[str, Any]] = {}
        sheets_needed: Dict[str, set] = {}
        types_seen = set()
        for asset in sorted(reference["assets"]):
            for f in reference["assets"][asset]["fractions"]:
                sheet = SHEET_OF_TYPE[f["ev_type"]]
                sheets_needed.setdefault(sheet, set()).add(asset)
                types_seen.add(f["ev_type"])
                out.classes.add(f"type_{f['ev_type']}_{country}")
                key = (
                    sheet,
                    asset,
                    sig(f["amount"]),
                    fmt(f["lot_date"]) if f["lot"] is not None else "",
                    fmt(f["ev_date"]),
                    sig(f["proceeds"]),
                    sig(f["basis"]) if f["lot"] is not None else "",
                    sig(f["gain"]),
                    f"{f['ev_table']} / {f['ev_type'].upper()}",
                    f.get("lot_uid", "") if f["lot"] is not None else "",
                    f["ev_uid"],
                    "LONG" if f["long"] else "SHORT",
                    f["ev_ts"],
                )
                expected[key] += 1
                expected_rows[key] = f
        if any(len(a) >= 2 for a in sheets_needed.values()) and len(types_seen) >= 5:
            out.nontrivial = True
        if any(len(a) >= 2 for a in sheets_needed.values()):
            out.classes.add("assets_share_a_sheet")
        # sheets present
        present = [name for name in sheets if name != "Legend"]
        if "Legend" not in sheets:
            out.fail("legend_missing", f"tax report has sheets {list(sheets)}")
            return out
        if sorted(present) != sorted(sheets_needed):
            out.fail(
                "tax_report_sheets_mismatch",
                f"tax_report_{country}.ods has sheets {sorted(present)}; the window's fractions need exactly {sorted(sheets_needed)} (sheets without rows are omitted, none may be missing)",
            )
            return out
        got: Counter = Counter()
        for name in present:
            rows = sheets[name]
            seen_blank = False
            for i in range(HEADER_ROWS, len(rows)):
                row = rows[i]
                if all(c.empty for c in row[:16]):
                    seen_blank = True
                    continue
                if seen_blank:
                    out.fail("tax_report_gap_in_rows", f"sheet '{name}' row {i + 1}: data after an empty row (a row was skipped or overwritten)")
                    return out
                key = (
                    name,
                    str(cellv(row, 1)),
                    sig(cellv(row, 0)),
                    str(cellv(row, 2) or ""),
                    str(cellv(row, 3) or ""),
                    sig(cellv(row, 4)),
                    sig(cellv(row, 5)),
                    sig(cellv(row, 8)),
                    str(cellv(row, 9)),
                    str(cellv(row, 11) or ""),
                    str(cellv(row, 13) or ""),
                    str(cellv(row, 14)),
                    str(cellv(row, 15)),
                )
                got[key] += 1
        if got != expected:
            missing = list((expected - got).elements())
            extra = list((got - expected).elements())
            out.fail(
                "tax_report_rows_mismatch",
                f"tax_report_{country}.ods: {sum(got.values())} rows vs {sum(expected.values())} fractions in the window; "
                f"fractions without a matching row (sheet, asset, amount, acquired, sold, proceeds, basis, gain, type, lot id, event id, L/S, timestamp): {missing[:2]}; rows without a matching fraction: {extra[:2]}",
            )
            return out
    finally:
        cli_common.cleanup(folder)
    return out


def minimize(case: Dict[str, Any], clause: str) -> Dict[str, Any]:
    def still_fails(candidate: Dict[str, Any]) -> bool:
        return any(c == clause for c, _ in evaluate(candidate).violations)

    return cli_common.minimize(case, still_fails, budget=30)
