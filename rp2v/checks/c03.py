"""C03 - exactly the taxable transactions are taxed, each once and in full.

Oracle: the expected set of taxable events is derived from the input rows alone (earn-typed acquisitions, every
out-transaction, transfers with sent > received); `taxable_event_set` must equal it, and the fractions grouped by
event must cover each exactly once, in full, under the row's own type.
"""
from __future__ import annotations

from fractions import Fraction
from typing import Any, Dict, List

from .. import drive_api, e2e, gen, model
from ..engine_common import engine_case, history_classes
from ..runner import Outcome

ID = "C03"
LEVEL = "exploration"
RULE = (
    "Constructed histories of 4-18 transactions whose IN/OUT type palettes are forced to cycle (all 14 types occur in "
    "every shard), non-taxable rows (buy, gift/donate received, fee-less transfers) interleaved, all three tables, "
    "x methods x schedules. Oracle: expected taxable set from the rows vs taxable_event_set and the fractions grouped by "
    "event (income: one lot-less fraction, full amount, zero basis, fiat value as proceeds; out: full outgoing amount; "
    "transfer: fee only, type MOVE). Non-trivial = >= 1 taxable and >= 1 non-taxable row; distinct by case hash."
)
ASSUMPTIONS = [
    "for an income row that also carries a fee either fiat_in_no_fee or fiat_in_with_fee is accepted as 'its fiat value'",
    "amounts <= 11 decimals; histories valid by construction (no over-spend)",
]
RULE += e2e.RULE_SUFFIX

CFG = gen.GenCfg(min_steps=4, max_steps=18, force_type_cycle=True, shared_uid_prob=0.15)
REL = Fraction(1, 10**20)


def budget(tier: str) -> Dict[str, Any]:
    return {"shards": 16, "examples": 1500 if tier == "quick" else 20000, "examples2": 8 if tier == "quick" else 150}


def strategy(tier: str) -> Any:
    return engine_case(CFG)


def taxable_set_violations(out: Outcome, txs: List[model.Tx], dump: Dict[str, Any]) -> None:
    by_row = {t.row: t for t in txs}
    expected = {t.row for t in txs if t.is_taxable}
    reported = [e["row"] for e in dump["taxable"]]
    if len(set(reported)) != len(reported):
        out.fail("taxable_event_duplicated", f"taxable_event_set lists a row twice: {sorted(reported)}")
        return
    if set(reported) != expected:
        missing = sorted(expected - set(reported))
        extra = sorted(set(reported) - expected)
        desc = [f"{by_row[r].table}/{by_row[r].type} row {r}" for r in missing] + [f"+{by_row[r].table}/{by_row[r].type} row {r}" for r in extra if r in by_row]
        out.fail("taxable_set_mismatch", f"expected taxable rows {sorted(expected)}, reported {sorted(reported)}; missing/unexpected: {desc}")
        return
    for entry in dump["taxable"]:
        tx = by_row[entry["row"]]
        if entry["type"] != tx.type:
            out.fail("taxable_event_wrong_type", f"row {tx.row} is {tx.table}/{tx.type} but is reported as {entry['type']}")
            return
    per_event: Dict[int, List[Dict[str, Any]]] = {}
    for fraction in dump["fractions"]:
        per_event.setdefault(fraction["ev"], []).append(fraction)
    if set(per_event) != expected:
        out.fail(
            "fraction_events_mismatch",
            f"fractions exist for event rows {sorted(per_event)}, expected exactly {sorted(expected)} "
            f"(dropped: {sorted(expected - set(per_event))}, unexpected: {sorted(set(per_event) - expected)})",
        )
        return
    for row, fractions in per_event.items():
        tx = by_row[row]
        for fraction in fractions:
            if fraction["ev_type"] != tx.type:
                out.fail("fraction_wrong_type", f"fraction of row {row} ({tx.table}/{tx.type}) reported under type {fraction['ev_type']}")
                return
        total = sum((f["amount"] for f in fractions), Fraction(0))
        if tx.is_earn:
            if len(fractions) != 1:
                out.fail("income_not_once", f"income row {row} ({tx.type}) has {len(fractions)} fractions, expected exactly one")
                return
            fraction = fractions[0]
            if fraction["lot"] is not None:
                out.fail("income_has_lot", f"income row {row} is paired with lot row {fraction['lot']}")
                return
            if fraction["amount"] != tx.crypto_in:
                out.fail("income_not_full_amount", f"income row {row}: amount {fraction['amount']} != crypto_in {tx.crypto_in}")
                return
            if fraction["basis"] != 0:
                out.fail("income_nonzero_basis", f"income row {row}: cost basis {fraction['basis']} != 0")
                return
            accepted = {tx.fiat_in_with_fee, tx.fiat_in_no_fee} if tx.has_fee else {tx.fiat_in_with_fee}
            if not any(abs(fraction["proceeds"] - a) <= REL * max(abs(a), Fraction(1, 10**30)) for a in accepted):
                out.fail("income_wrong_fiat_value", f"income row {row}: proceeds {fraction['proceeds']} not its fiat value {sorted(accepted)}")
                return
        else:
            if any(f["lot"] is None for f in fractions):
                out.fail("disposal_without_lot", f"disposal row {row} ({tx.table}/{tx.type}) has a lot-less fraction")
                return
            if total != tx.leaving:
                what = "fee" if tx.table == "intra" else "amount + fee"
                out.fail("disposal_not_in_full", f"row {row} ({tx.table}/{tx.type}): fractions sum to {total}, expected {what} = {tx.leaving}")
                return


E2E_HIST = gen.GenCfg(min_steps=5, max_steps=16, max_exchanges=2, max_holders=2, force_type_cycle=True, bulk_prob=0.03)


def strategy2(tier: str) -> Any:
    """End-to-end tier (rp2v/e2e.py): multi-asset files through the console entry point; the same predicate is applied to
    figures read back from rp2_full_report.ods and related to the generated rows by unique id."""
    return e2e.file_strategy(E2E_HIST, countries=("us", "generic", "ie", "jp"), force_all_types=True)


def minimize(case: Dict[str, Any], clause: str) -> Dict[str, Any]:
    return e2e.minimize(case, clause, evaluate) if case.get("e2e") else case


def evaluate(case: Dict[str, Any]) -> Outcome:
    if case.get("e2e"):
        return e2e.evaluate_assets(case, "c03e", lambda out, asset, txs, dump, schedule: taxable_set_violations(out, txs, dump))
    out = Outcome()
    txs = model.make_txs(case["rows"])
    out.classes |= history_classes(txs, case["schedule"])
    for t in txs:
        out.classes.add(f"type_{t.table}_{t.type}")
    n_taxable = sum(1 for t in txs if t.is_taxable)
    if 0 < n_taxable < len(txs):
        out.nontrivial = True
    if any(t.table == "intra" and not t.is_taxable for t in txs):
        out.classes.add("fee_less_transfer")
    if any(t.table == "intra" and t.is_taxable for t in txs):
        out.classes.add("transfer_with_fee")
    dump = drive_api.run_case(case)
    if not dump["ok"]:
        out.fail("valid_history_rejected", f"{dump['error_type']}: {dump['error'][:300]}")
        return out
    taxable_set_violations(out, txs, dump)
    return out
