"""C10 - date filters only hide rows; they never change the figures shown.

Metamorphic oracle over three runs of the same history: U = unfiltered, T = to-date only, F = from-date + to-date.
  * F's fractions = U's fractions whose event's own date lies in [from, to], with identical pairing and figures
    (amount, proceeds, basis, gain, long flag, running sum), in the same order;
  * F's in/out/intra sets and taxable events = the rows dated in the window, each once;
  * F's balances, average price and k/n fraction labels = T's;
  * F's yearly lines = T's restricted to years >= the from-date's year.
A dedicated sub-generator produces histories whose local dates are *not* monotone in instant order (mixed offsets
within 26 h): confirmed defect F7 (known finding, matched by signature).
"""
from __future__ import annotations

from datetime import timedelta
from fractions import Fraction
from typing import Any, Dict, List, Optional

from hypothesis import strategies as st

from .. import cli_common, drive_api, e2e, gen, model
from ..engine_common import engine_case, history_classes
from ..runner import Outcome
from . import c06

ID = "C10"
LEVEL = "exploration"
RULE = (
    "Constructed date-monotone multi-year histories of 4-18 transactions x methods x schedules x windows from window(): "
    "from/to placed on, one day before/after and between transaction dates, year edges, mid-year, before/after "
    "everything, from == to, empty windows; three runs per case (unfiltered, to only, from+to). One case in twelve comes "
    "from the non-monotone sub-generator (two entries < 26 h apart whose local dates are in the opposite order, to-date "
    "between them), one in twelve is a same-instant twin (two entries of one table at one instant, written with different UTC "
    "offsets so that their own dates are D and D+1, bounds on and between the two), one in twenty-four has 33-90 small "
    "purchases and one sale that takes most of them (dozens of fractions with one timestamp, window starting that day); the "
    "to-date run's yearly lines are re-summed from the unfiltered fractions dated up to the to-date. Non-trivial = the window hides a lot that a visible fraction consumes, or a transaction lies exactly "
    "on a bound; distinct by case hash."
)
ASSUMPTIONS = [
    "histories are date-monotone (R3) except in the sub-generator aimed at F7",
    "in-lot sold percentage depends on the window by design and is judged by C13 only without a from-date",
]
RULE += e2e.RULE_SUFFIX

CFG = gen.GenCfg(min_steps=4, max_steps=18, max_exchanges=2, max_holders=2)
FIELDS = ("ev", "lot", "amount", "proceeds", "basis", "gain", "long", "running")
LABELS = ("ev_k", "ev_n", "lot_k", "lot_n")


def budget(tier: str) -> Dict[str, Any]:
    return {"shards": 16, "examples": 800 if tier == "quick" else 10000, "examples2": 10 if tier == "quick" else 150}


E2E_HIST = gen.GenCfg(min_steps=5, max_steps=16, max_exchanges=2, max_holders=2, long_gaps=True)
E2E_REL = Fraction(1, 10**12)


def strategy2(tier: str) -> Any:
    """End-to-end tier (rp2v/e2e.py): the console entry point run twice on the same files, with the window (-f / -t, with -m
    or an [accounting_methods] section) and without it; the windowed report's detail rows must be the unfiltered report's
    rows dated in the window, figure by figure, and its In / Out / Intra tables the rows dated in the window."""
    return e2e.file_strategy(E2E_HIST, countries=("us", "us", "us", "generic", "ie"), to_dates=True, from_dates=True, force_window=True, schedule_weight=4)


def minimize(case: Dict[str, Any], clause: str) -> Dict[str, Any]:
    return e2e.minimize(case, clause, evaluate) if case.get("e2e") else case


def evaluate_e2e(case: Dict[str, Any]) -> Outcome:
    out = Outcome()
    out.classes.add("e2e_cli")
    out.classes.add(f"e2e_{case['country']}")
    from_d, to_d = model.parse_date(case.get("from")), model.parse_date(case.get("to"))
    if from_d is None and to_d is None:
        out.skipped = "e2e_no_window_drawn"
        return out
    out.classes.add("e2e_window_" + ("from+to" if from_d and to_d else "from" if from_d else "to"))
    if case.get("schedule"):
        out.classes.add("e2e_accounting_methods_section")
    folder = cli_common.work_dir("c10e")
    try:
        unfiltered_case = dict(case, **{"from": None, "to": None})
        res_u, dumps_u, rows_model = e2e.run(unfiltered_case, folder + "/u")
        res_f, dumps_f, _ = e2e.run(case, folder + "/f")
        if dumps_u is None:
            out.skipped = "e2e_run_failed(C16)"
            return out
        if dumps_f is None:
            out.fail("window_changes_outcome", f"[end-to-end: rp2_{case['country']}] the unfiltered run succeeds, the run with from={case.get('from')} to={case.get('to')} exits with {res_f.rc}: {cli_common.crash_bucket(res_f.text)}")
            return out
        for asset in sorted(dumps_u):
            du, df = dumps_u[asset], dumps_f[asset]
            if not du["ok"] or not df["ok"]:
                out.skipped = "e2e_report_not_relatable(C13)"
                return out
            txs = model.make_txs(rows_model[asset])
            if not model.is_date_monotone(txs):
                out.skipped = "non_monotone_dates(R3)"
                return out
            by_row = {t.row: t for t in txs}
            where = f"[end-to-end: rp2_{case['country']}, asset {asset}, from={case.get('from')} to={case.get('to')}]"
            for table in ("in", "out", "intra"):
                expected_rows = sorted(t.row for t in txs if t.table == table and model.in_window(t.day, from_d, to_d))
                if sorted(df["listed"][table]) != expected_rows:
                    out.fail("window_transactions_mismatch", f"{where} {table} table lists rows {sorted(df['listed'][table])}, rows dated in the window are {expected_rows}")
                    return out
            expected = [f for f in du["fractions"] if model.in_window(by_row[f["ev"]].day, from_d, to_d)]
            if len(expected) < len(du["fractions"]):
                out.nontrivial = True
            shown = df["fractions"]
            if [(f["ev"], f["lot"]) for f in shown] != [(f["ev"], f["lot"]) for f in expected]:
                out.fail("window_fractions_mismatch", f"{where} detail rows pair (event row, lot row) {[(f['ev'], f['lot']) for f in shown][:8]}; the unfiltered report's rows dated in the window are {[(f['ev'], f['lot']) for f in expected][:8]}")
                return out
            for a, b in zip(shown, expected):
                for name in ("amount", "proceeds", "basis", "gain"):
                    scale = max(abs(b["proceeds"] or 0), abs(b["basis"] or 0), abs(b[name] or 0), Fraction(1, 10**9))
                    if a[name] is None or b[name] is None or abs(a[name] - b[name]) > E2E_REL * scale:
                        out.fail("window_changes_figures", f"{where} fraction (event row {a['ev']}, lot row {a['lot']}): {name} = {a[name]} with the window, {b[name]} without it")
                        return out
                if a["long"] != b["long"]:
                    out.fail("window_changes_figures", f"{where} fraction (event row {a['ev']}, lot row {a['lot']}): LONG/SHORT differs with and without the window")
                    return out
    finally:
        cli_common.cleanup(folder)
    return out


@st.composite
def non_monotone_case(draw: Any) -> Dict[str, Any]:
    """BUY early; then entry A (instant t, offset +14 -> local date D+1) and entry B (instant t + few hours, offset -12 ->
    local date D); to-date = D: B is dated inside the window but sorts after A, which is dated outside."""
    year = draw(st.integers(2016, 2022))
    base = gen._year_start_us(year) + draw(st.integers(40, 300)) * gen.DAY_US + 12 * 3600 * gen.US  # noon UTC of day D
    t_a = base + draw(st.integers(0, 3)) * 3600 * gen.US  # +14h -> next local day
    t_b = t_a + draw(st.integers(1, 6)) * 3600 * gen.US  # -12h -> still day D (or D-1)
    rows: List[Dict[str, Any]] = [
        {"table": "in", "row": 3, "ts": model.fmt_ts(base - draw(st.integers(30, 400)) * gen.DAY_US, 0), "ex": "Kraken", "ho": "Bob", "type": "buy", "price": "100", "crypto_in": "10", "uid": "u3"}
    ]
    kind_a = draw(st.sampled_from(["in", "out"]))
    kind_b = draw(st.sampled_from(["in", "out", "intra"]))
    for row_no, (kind, us, off) in enumerate(((kind_a, t_a, 14 * 60), (kind_b, t_b, -12 * 60)), start=4):
        ts = model.fmt_ts(us, off)
        if kind == "in":
            rows.append({"table": "in", "row": row_no, "ts": ts, "ex": "Kraken", "ho": "Bob", "type": draw(st.sampled_from(["buy", "interest"])), "price": "110", "crypto_in": "2", "uid": f"u{row_no}"})
        elif kind == "out":
            rows.append({"table": "out", "row": row_no, "ts": ts, "ex": "Kraken", "ho": "Bob", "type": "sell", "price": "120", "out": "1", "fee": "0", "uid": f"u{row_no}"})
        else:
            rows.append({"table": "intra", "row": row_no, "ts": ts, "from_ex": "Kraken", "from_ho": "Bob", "to_ex": "Kraken", "to_ho": "Bob", "price": "120", "sent": "1", "received": "0.99", "uid": f"u{row_no}"})
    txs = model.make_txs(rows)
    case = {
        "asset": "B1",
        "exchanges": ["Kraken"],
        "holders": ["Bob"],
        "rows": rows,
        "schedule": {"1970": draw(st.sampled_from(model.METHODS))},
        "country": "us",
        "allow_negative": True,
        "from": None,
        "to": txs[2].day.isoformat(),
        "sub_generator": "non_monotone",
    }
    return case


@st.composite
def same_instant_twin_case(draw: Any) -> Dict[str, Any]:
    """Two entries at the very same instant written with different UTC offsets, so that their own dates are D and D+1, the
    D one first in the sheet (date-monotone); the window bounds fall on and between the two dates."""
    year = draw(st.integers(2016, 2022))
    hour = draw(st.integers(0, 23))
    t = gen._year_start_us(year) + draw(st.integers(40, 300)) * gen.DAY_US + hour * 3600 * gen.US + draw(st.sampled_from([0, 0, 30, 59])) * 60 * gen.US
    offsets = sorted(set(gen.OFFSETS_MIN))
    pairs = [(a, b) for a in offsets for b in offsets if model.make_txs([_probe(t, a)])[0].day < model.make_txs([_probe(t, b)])[0].day]
    off_a, off_b = draw(st.sampled_from(pairs))
    rows: List[Dict[str, Any]] = [
        {"table": "in", "row": 3, "ts": model.fmt_ts(t - draw(st.integers(30, 400)) * gen.DAY_US, 0), "ex": "Kraken", "ho": "Bob", "type": "buy", "price": "100", "crypto_in": "10", "uid": "u3"},
        {"table": "in", "row": 4, "ts": model.fmt_ts(t - draw(st.integers(3, 29)) * gen.DAY_US, 0), "ex": "Kraken", "ho": "Bob", "type": "buy", "price": draw(st.sampled_from(["70", "130"])), "crypto_in": "5", "uid": "u4"},
    ]
    # both in the same table: the order of equal instants across tables is rp2's own (entries of different tables at one
    # instant with different own dates are the F7 situation, see non_monotone_case)
    kinds = [draw(st.sampled_from(["out", "out", "in", "intra"]))] * 2
    stamps = [(t, off_a), (t, off_b)]
    if draw(st.booleans()):
        kinds.append("out")
        stamps.append((t + draw(st.integers(2, 200)) * gen.DAY_US, draw(st.sampled_from(offsets))))
    for row_no, (kind, (us, off)) in enumerate(zip(kinds, stamps), start=5):
        ts = model.fmt_ts(us, off)
        if kind == "in":
            rows.append({"table": "in", "row": row_no, "ts": ts, "ex": "Kraken", "ho": "Bob", "type": draw(st.sampled_from(["buy", "interest"])), "price": "110", "crypto_in": "2", "uid": f"u{row_no}"})
        elif kind == "out":
            rows.append({"table": "out", "row": row_no, "ts": ts, "ex": "Kraken", "ho": "Bob", "type": draw(st.sampled_from(["sell", "gift", "fee"])), "price": "120", "out": "2", "fee": "0.01", "uid": f"u{row_no}"})
            if rows[-1]["type"] == "fee":
                rows[-1]["out"], rows[-1]["fee"] = "0", "0.5"
        else:
            rows.append({"table": "intra", "row": row_no, "ts": ts, "from_ex": "Kraken", "from_ho": "Bob", "to_ex": "Coinbase", "to_ho": "Bob", "price": "120", "sent": "1", "received": "0.99", "uid": f"u{row_no}"})
    txs = model.make_txs(rows)
    day_a, day_b = txs[2].day, txs[3].day
    to_s = draw(st.sampled_from([day_a.isoformat(), day_a.isoformat(), day_b.isoformat(), None]))
    from_s = draw(st.sampled_from([None, None, day_a.isoformat(), day_b.isoformat()]))
    if from_s and to_s and from_s > to_s:
        from_s = to_s
    return {
        "asset": "B1",
        "exchanges": ["Kraken", "Coinbase"],
        "holders": ["Bob"],
        "rows": rows,
        "schedule": {"1970": draw(st.sampled_from(model.METHODS))},
        "country": "us",
        "allow_negative": True,
        "from": from_s,
        "to": to_s,
        "sub_generator": "same_instant_twin",
    }


@st.composite
def many_lots_one_sale_case(draw: Any) -> Dict[str, Any]:
    """33-90 small purchases (some on the same day), then one sale that takes most of them - dozens of fractions with one
    timestamp - and a few later rows; the window starts on the day of the sale or of one of the purchases.  Sets of more than a
    few dozen entries with runs of equal dates are what the step-by-step generator cannot reach."""
    acc = ("Kraken", "Bob")
    us = gen._year_start_us(draw(st.integers(2016, 2020))) + draw(st.integers(0, 200)) * gen.DAY_US + draw(st.integers(0, 86399)) * gen.US
    n = draw(st.integers(33, 90))
    gap = draw(st.sampled_from([5 * 3600 * gen.US, 11 * 3600 * gen.US, gen.DAY_US, 3 * gen.DAY_US]))
    rows: List[Dict[str, Any]] = []
    total = 0
    for i in range(n):
        units = (1 + i % 4) * (gen.UNIT // 100)
        rows.append({"table": "in", "row": 3 + len(rows), "ts": model.fmt_ts(us, 0), "ex": acc[0], "ho": acc[1], "type": "interest" if i % 9 == 4 else "buy", "price": gen.units_to_str((100 + (i * 7) % 40) * gen.UNIT), "crypto_in": gen.units_to_str(units), "uid": f"b{i}"})
        total += units
        us += gap
    us += draw(st.integers(0, 30)) * gen.DAY_US
    sold = total * draw(st.sampled_from([5, 8, 9, 10])) // 10
    rows.append({"table": "out", "row": 3 + len(rows), "ts": model.fmt_ts(us, 0), "ex": acc[0], "ho": acc[1], "type": draw(st.sampled_from(["sell", "gift"])), "price": "150", "out": gen.units_to_str(sold), "fee": "0", "uid": "big"})
    sale_day = model.make_txs(rows[-1:])[0].day
    for k in range(draw(st.integers(0, 3))):
        us += draw(st.integers(0, 2)) * gen.DAY_US + 3600 * gen.US
        rows.append({"table": "in", "row": 3 + len(rows), "ts": model.fmt_ts(us, 0), "ex": acc[0], "ho": acc[1], "type": "buy", "price": "160", "crypto_in": "0.5", "uid": f"a{k}"})
        us += draw(st.integers(0, 2)) * gen.DAY_US + 3600 * gen.US
        rows.append({"table": "out", "row": 3 + len(rows), "ts": model.fmt_ts(us, 0), "ex": acc[0], "ho": acc[1], "type": "sell", "price": "170", "out": "0.1", "fee": "0.001", "uid": f"s{k}"})
    txs = model.make_txs(rows)
    from_s = sale_day.isoformat() if draw(st.integers(0, 2)) else draw(st.sampled_from(sorted({t.day for t in txs}))).isoformat()
    to_s = draw(st.sampled_from([None, None, sale_day.isoformat(), txs[-1].day.isoformat()]))
    if to_s and from_s > to_s:
        to_s = None
    return {
        "asset": "B1",
        "exchanges": ["Kraken"],
        "holders": ["Bob"],
        "rows": rows,
        "schedule": {"1970": draw(st.sampled_from(model.METHODS))},
        "country": "us",
        "allow_negative": True,
        "from": from_s,
        "to": to_s,
        "sub_generator": "many_lots_one_sale",
    }


def _probe(us: int, off: int) -> Dict[str, Any]:
    return {"table": "in", "row": 3, "ts": model.fmt_ts(us, off), "ex": "Kraken", "ho": "Bob", "type": "buy", "price": "1", "crypto_in": "1", "uid": "p"}


@st.composite
def strategy_case(draw: Any) -> Dict[str, Any]:
    pick = draw(st.integers(0, 11))
    if pick == 0:
        return draw(non_monotone_case())
    if pick == 1:
        return draw(same_instant_twin_case())
    if pick == 2 and draw(st.booleans()):
        return draw(many_lots_one_sale_case())
    case = draw(engine_case(CFG, allow_negative=True))
    txs = model.make_txs(case["rows"])
    kind = draw(st.integers(0, 5))
    first = draw(gen.window_date(txs))
    second = draw(gen.window_date(txs))
    if kind == 0:
        case["from"], case["to"] = first, None
    elif kind == 1:
        case["from"], case["to"] = None, first
    elif kind == 2:
        case["from"], case["to"] = first, first
    else:
        case["from"], case["to"] = min(first, second), max(first, second)
    return case


def strategy(tier: str) -> Any:
    return strategy_case()


def known_signature(case: Dict[str, Any], clause: str, detail: str) -> Optional[str]:
    if case.get("e2e"):
        return None
    """F7: an entry whose own date <= to-date sorts, by instant, after an entry whose date > to-date."""
    if not case.get("to"):
        return None
    to_d = model.parse_date(case["to"])
    txs = sorted(model.make_txs(case["rows"]), key=lambda t: t.us)
    seen_after = False
    for t in txs:
        if t.day > to_d:
            seen_after = True
        elif seen_after:
            return "F7_to_date_break_on_non_monotone_local_dates"
    return None


def evaluate(case: Dict[str, Any]) -> Outcome:
    if case.get("e2e"):
        return evaluate_e2e(case)
    out = Outcome()
    txs = model.make_txs(case["rows"])
    by_row = {t.row: t for t in txs}
    out.classes |= history_classes(txs, case["schedule"])
    monotone = model.is_date_monotone(txs)
    if case.get("sub_generator") == "same_instant_twin":
        out.classes.add("same_instant_two_own_dates")
    if case.get("sub_generator") == "many_lots_one_sale":
        out.classes.add("dozens_of_fractions_with_one_timestamp")
    if not monotone:
        out.classes.add("non_monotone_local_dates")
        if case.get("sub_generator") not in ("non_monotone", "same_instant_twin"):
            out.skipped = "non_monotone_dates(R3)"
            return out
    from_s, to_s = case.get("from"), case.get("to")
    from_d, to_d = model.parse_date(from_s), model.parse_date(to_s)
    kind = ("from" if from_s else "") + ("+" if from_s and to_s else "") + ("to" if to_s else "") or "none"
    out.classes.add(f"window_{kind}")
    if from_s and from_s == to_s:
        out.classes.add("from_equals_to")
    in_win = [t for t in txs if model.in_window(t.day, from_d, to_d)]
    if not in_win:
        out.classes.add("empty_window")
    if (from_d and any(t.day == from_d for t in txs)) or (to_d and any(t.day == to_d for t in txs)):
        out.nontrivial = True
        out.classes.add("transaction_exactly_on_a_bound")
    if from_d and from_d != from_d.replace(month=1, day=1):
        out.classes.add("mid_year_from")
    run_u = drive_api.run_case(case, from_date="", to_date="")
    if not run_u["ok"]:
        out.fail("valid_history_rejected", f"{run_u['error_type']}: {run_u['error'][:300]}")
        return out
    run_t = drive_api.run_case(case, from_date="", to_date=to_s or "")
    run_f = drive_api.run_case(case, from_date=from_s or "", to_date=to_s or "")
    for label, run in (("to-date only", run_t), ("from+to", run_f)):
        if not run["ok"]:
            out.fail("filtered_run_rejected", f"the unfiltered run succeeds, the run with {label} ({from_s}..{to_s}) fails: {run['error_type']}: {run['error'][:300]}")
            return out
    # 1. fractions of F = fractions of U in the window, identical figures
    expected = [f for f in run_u["fractions"] if model.in_window(by_row[f["ev"]].day, from_d, to_d)]
    got = run_f["fractions"]
    if [(f["ev"], f["lot"]) for f in got] != [(f["ev"], f["lot"]) for f in expected]:
        out.fail(
            "window_fractions_mismatch",
            f"window {from_s}..{to_s}: shown (event,lot) pairs {[(f['ev'], f['lot']) for f in got]} != unfiltered pairs dated in the window {[(f['ev'], f['lot']) for f in expected]}",
        )
        return out
    for a, b in zip(got, expected):
        for name in FIELDS:
            if a[name] != b[name]:
                out.fail("window_changes_figures", f"window {from_s}..{to_s}: fraction (event {a['ev']}, lot {a['lot']}): {name} = {a[name]} filtered vs {b[name]} unfiltered")
                return out
    if from_d and any(f["lot"] is not None and by_row[f["lot"]].day < from_d for f in got):
        out.nontrivial = True
        out.classes.add("window_hides_lot_of_visible_fraction")
    # 2. transaction sets and taxable events
    for name, table in (("ins", "in"), ("outs", "out"), ("intras", "intra")):
        shown = [e["row"] for e in run_f[name]]
        want = sorted(t.row for t in in_win if t.table == table)
        if sorted(shown) != want:
            out.fail("window_transactions_mismatch", f"window {from_s}..{to_s}: {table}-transactions shown {sorted(shown)}, rows dated in the window {want}")
            return out
        if [by_row[r].us for r in shown] != sorted(by_row[r].us for r in shown):
            out.fail("window_transactions_not_time_sorted", f"{table}-transactions shown out of time order: {shown}")
            return out
    shown_tax = sorted(e["row"] for e in run_f["taxable"])
    want_tax = sorted(t.row for t in in_win if t.is_taxable)
    if shown_tax != want_tax:
        out.fail("window_taxable_events_mismatch", f"window {from_s}..{to_s}: taxable events shown {shown_tax}, expected {want_tax}")
        return out
    # running sums of the transactions shown = those of the unfiltered run
    for name in ("ins", "outs", "intras"):
        full = {e["row"]: e for e in run_u[name]}
        for e in run_f[name]:
            for key in ("running", "fee_running"):
                if key in e and e[key] != full[e["row"]][key]:
                    out.fail("window_changes_running_sum", f"{name} row {e['row']}: {key} {e[key]} filtered vs {full[e['row']][key]} unfiltered")
                    return out
    # 3. balances, average price, labels = T's
    if run_f["balances"] != run_t["balances"]:
        out.fail("window_changes_balances", f"balances with from-date {from_s} differ from the to-date-only run: {run_f['balances']} vs {run_t['balances']}")
        return out
    if run_f["ppu"] != run_t["ppu"]:
        out.fail("window_changes_average_price", f"average price {run_f['ppu']} vs {run_t['ppu']} (to-date only)")
        return out
    # ... and the average price "reflects all history up to the to-date": cost (fees included) of everything acquired up to the
    # to-date over the amount acquired, from the rows
    acquired = [t for t in txs if t.is_lot and (to_d is None or t.day <= to_d)]
    amount_in = sum((t.crypto_in for t in acquired), Fraction(0))
    if amount_in > 0:
        want_ppu = sum((t.fiat_in_with_fee for t in acquired), Fraction(0)) / amount_in
        for label, run in (("to-date only", run_t), ("from+to", run_f)):
            if abs(run["ppu"] - want_ppu) > Fraction(1, 10**20) * max(want_ppu, Fraction(1, 10**9)):
                out.fail("average_price_not_up_to_the_to_date", f"window {from_s}..{to_s} ({label}): average price {run['ppu']}; cost of everything acquired up to the to-date / amount acquired = {want_ppu}")
                return out
    labels_t = {(f["ev"], f["lot"]): tuple(f[k] for k in LABELS) for f in run_t["fractions"]}
    for f in got:
        if labels_t.get((f["ev"], f["lot"])) != tuple(f[k] for k in LABELS):
            out.fail("window_changes_fraction_labels", f"fraction (event {f['ev']}, lot {f['lot']}): labels {tuple(f[k] for k in LABELS)} vs {labels_t.get((f['ev'], f['lot']))} in the to-date-only run")
            return out
    # fraction counts reflect all history up to the to-date: labels recomputed from the unfiltered fractions dated <= to
    upto = [f for f in run_u["fractions"] if model.in_window(by_row[f["ev"]].day, None, to_d)]
    ev_n: Dict[int, int] = {}
    lot_n: Dict[int, int] = {}
    for f in upto:
        ev_n[f["ev"]] = ev_n.get(f["ev"], 0) + 1
        if f["lot"] is not None:
            lot_n[f["lot"]] = lot_n.get(f["lot"], 0) + 1
    ev_k: Dict[int, int] = {}
    lot_k: Dict[int, int] = {}
    want_labels = {}
    for f in upto:
        ev_k[f["ev"]] = ev_k.get(f["ev"], 0) + 1
        if f["lot"] is not None:
            lot_k[f["lot"]] = lot_k.get(f["lot"], 0) + 1
        want_labels[(f["ev"], f["lot"])] = (ev_k[f["ev"]], ev_n[f["ev"]], lot_k.get(f["lot"]) if f["lot"] is not None else None, lot_n.get(f["lot"]) if f["lot"] is not None else None)
    for f in got:
        have = tuple(f[k] for k in LABELS)
        if want_labels.get((f["ev"], f["lot"])) != have:
            out.fail(
                "fraction_labels_do_not_reflect_history_up_to_to_date",
                f"window {from_s}..{to_s}: fraction (event {f['ev']}, lot {f['lot']}) is labelled (event k/n, lot k/n) = {have}; counting the fractions dated up to the to-date gives {want_labels.get((f['ev'], f['lot']))}",
            )
            return out
    # the to-date-only run itself: same figures as U for everything dated <= to
    expected_t = [f for f in run_u["fractions"] if model.in_window(by_row[f["ev"]].day, None, to_d)]
    if [(f["ev"], f["lot"]) + tuple(f[n] for n in FIELDS) for f in run_t["fractions"]] != [(f["ev"], f["lot"]) + tuple(f[n] for n in FIELDS) for f in expected_t]:
        out.fail("to_date_changes_figures", f"to-date {to_s}: fractions differ from the unfiltered fractions dated up to it")
        return out
    # ... and its yearly lines are the sums over exactly those fractions (independent of rp2's own cut at the to-date)
    expected_lines, _counts = c06.resum(case["asset"], txs, expected_t)
    c06.compare_yearly(out, expected_lines, run_t["yearly"], f"to-date {to_s}: yearly lines vs the unfiltered fractions dated up to it")
    if out.violations:
        return out
    # 4. yearly lines = T's restricted to years >= from-year
    want_yearly = [y for y in run_t["yearly"] if from_d is None or y["year"] >= from_d.year]
    key = lambda y: (y["year"], y["type"], y["long"])  # noqa: E731
    if sorted(run_f["yearly"], key=key) != sorted(want_yearly, key=key):
        out.fail("window_yearly_mismatch", f"window {from_s}..{to_s}: yearly lines {[(key(y), y['gain']) for y in run_f['yearly']]} vs to-date-only lines of years >= from-year {[(key(y), y['gain']) for y in want_yearly]}")
        return out
    return out
