"""C17 - results depend only on the input: deterministic, order- and asset-independent.

Four metamorphic relations, all on real CLI runs (fresh processes) and, where stated, on the API:
 (a) same input and options under different PYTHONHASHSEED values -> identical content.xml of every report;
 (b) stateful (RuleBasedStateMachine over one output directory): rules run an option tuple, drop junk files, pre-create
     stale files under the report names; invariant: the reports of tuple x are identical (content.xml) to those of the
     first run of x in an empty directory;
 (c) rows permuted within tables, tables permuted within sheets, sheets permuted (distinct instants, equal prices
     allowed) -> identical content.xml and identical normalised API dump up to row ids;
 (d) assets {A, B, ..} together vs `-a A` vs a config/spreadsheet holding only A -> A's two sheets, A's Summary lines and
     A's tax-report rows identical; API: compute_tax for A identical whatever was computed before with the same engine.
"""
from __future__ import annotations

import copy
import os
import shutil
from typing import Any, Callable, Dict, List, Optional, Tuple

from hypothesis import strategies as st
from hypothesis.stateful import RuleBasedStateMachine, initialize, invariant, precondition, rule

from .. import cli, cli_common, drive_api, filegen, files, gen, model, report_model
from ..report_model import cellv
from ..runner import Outcome
from . import c13

ID = "C17"
LEVEL = "exploration"
RULE = (
    "Hypothesis-generated valid inputs (1-3 assets, distinct instants, price palettes forcing equal-price lots, all "
    "methods incl. HIFO/LOFO and schedules, windows, all entry points) under four relations: (a) PYTHONHASHSEED 0 vs "
    "{1, 2, random}; (b) state machine over one output directory (run tuple / drop junk / pre-create stale report files; "
    "<= 6 steps); (c) random permutation of rows within tables, of tables within sheets and of sheets; (d) asset subsets "
    "(all together, -a A, input holding only A) and API recomputation after other assets. Compared artefact: content.xml "
    "of every report (a, b, c), parsed cells of A's sheets and rows (d), normalised API dumps keyed by unique id (c, d). "
    "Non-trivial = a differing hash seed, a non-identity permutation, >= 2 assets (d), or a rerun into a non-empty "
    "directory (b); distinct by case hash."
)
ASSUMPTIONS = [
    "permutation relation only for inputs whose instants are pairwise distinct within an asset (as the statement requires)",
    "content.xml is the compared artefact: meta.xml legitimately carries the creation date",
]

HIST = gen.GenCfg(min_steps=3, max_steps=10, max_exchanges=2, max_holders=2, tie_prob=0.0)
HIST_D = gen.GenCfg(min_steps=3, max_steps=8, max_exchanges=2, max_holders=1, tie_prob=0.0, long_gaps=True, start_years=(2016, 2019))


def budget(tier: str) -> Dict[str, Any]:
    if tier == "quick":
        return {"shards": 16, "examples": 16, "shrink": False, "machine_examples": 4, "machine_steps": 6}
    return {"shards": 16, "examples": 75, "shrink": False, "machine_examples": 12, "machine_steps": 8}


@st.composite
def strategy_case(draw: Any) -> Dict[str, Any]:
    mode = draw(st.sampled_from(["a", "c", "c", "d", "d"]))
    if mode == "d":
        # asset independence: several assets whose active years differ (sparse, multi-year histories), JP over-represented because
        # its report chains each asset's year sheets
        case = draw(filegen.file_case(countries=("us", "generic", "ie", "jp", "jp", "jp"), hist=HIST_D, max_assets=3, min_assets=2, shuffle_rows=False, flavours=("sparse_years", "sparse_years", "mixed", "disposal_years")))
    else:
        case = draw(filegen.file_case(countries=("us", "us", "generic", "es", "ie", "jp"), hist=HIST, max_assets=3, min_assets=1, shuffle_rows=False))
    case["mode"] = mode
    if mode == "a":
        case["hashseed"] = draw(st.sampled_from(["1", "2", "random", "12345"]))
    elif mode == "c":
        perm: Dict[str, Any] = {"sheets": list(draw(st.permutations(list(case["assets"])))), "tables": {}, "rows": {}}
        for asset, spec in case["assets"].items():
            perm["tables"][asset] = list(draw(st.permutations(list(range(len(spec["tables"]))))))
            perm["rows"][asset] = [list(draw(st.permutations(list(range(len(rows)))))) for _, rows in spec["tables"]]
        case["perm"] = perm
    else:
        case["asset_a"] = draw(st.sampled_from(sorted(case["assets"])))
        case["asset_opt"] = None
    return case


def strategy(tier: str) -> Any:
    return strategy_case()


def permuted(case: Dict[str, Any]) -> Dict[str, Any]:
    perm = case["perm"]
    other = copy.deepcopy(case)
    new_assets: Dict[str, Any] = {}
    for asset in perm["sheets"]:
        spec = other["assets"][asset]
        tables = []
        for ti in perm["tables"][asset]:
            table, rows = spec["tables"][ti]
            tables.append([table, [rows[ri] for ri in perm["rows"][asset][ti]]])
        new_assets[asset] = dict(spec, tables=tables)
    other["assets"] = new_assets
    other["config_assets"] = list(case["assets"])
    return other


def report_contents(outdir: str, names: Optional[List[str]] = None) -> Dict[str, bytes]:
    """content.xml of the reports in a directory (all *.ods files, or only the given names that exist)."""
    result: Dict[str, bytes] = {}
    for name in sorted(os.listdir(outdir)):
        if not name.endswith(".ods") or (names is not None and name not in names):
            continue
        path = os.path.join(outdir, name)
        try:
            result[name] = files.content_xml(path)
        except Exception:  # pylint: disable=broad-except
            result[name] = b"<unreadable: not an ODS archive>"
    return result


def first_difference(a: bytes, b: bytes) -> str:
    n = next((i for i, (x, y) in enumerate(zip(a, b)) if x != y), min(len(a), len(b)))
    return f"first difference at byte {n}: ...{a[max(0, n - 80):n + 80]!r} vs ...{b[max(0, n - 80):n + 80]!r}"


def compare_contents(out: Outcome, clause: str, what: str, first: Dict[str, bytes], second: Dict[str, bytes]) -> bool:
    if sorted(first) != sorted(second):
        out.fail(clause, f"{what}: report files differ: {sorted(first)} vs {sorted(second)}")
        return False
    for name in first:
        if first[name] != second[name]:
            out.fail(clause, f"{what}: content.xml of {name} differs; {first_difference(first[name], second[name])}")
            return False
    return True


def dump_by_uid(reference: Dict[str, Any], asset: str) -> Dict[str, Any]:
    """API dump with transactions identified by (table, unique id) instead of row numbers."""
    ref = reference["assets"][asset]
    ident: Dict[int, Tuple[str, str]] = {}
    for key, table in (("in_tx", "in"), ("out_tx", "out"), ("intra_tx", "intra")):
        for entry in ref[key]:
            ident[entry["row"]] = (table, entry["uid"])
    fractions = [
        (f["ev_table"], f["ev_uid"], f.get("lot_uid"), f["amount"], f["proceeds"], f["basis"], f["gain"], f["long"], f["ev_k"], f["ev_n"], f["lot_k"], f["lot_n"], f["running"])
        for f in ref["fractions"]
    ]
    tx = {key: [{k: v for k, v in entry.items() if k != "row"} for entry in ref[key]] for key in ("in_tx", "out_tx", "intra_tx")}
    return {"fractions": fractions, "yearly": ref["yearly"], "balances": ref["balances"], "ppu": ref["ppu"], "tx": tx}


def api_reference(case: Dict[str, Any], ini: str, ods: str, assets: Optional[List[str]] = None) -> Dict[str, Any]:
    return drive_api.compute_files(
        ini, ods, case["country"], schedule=cli_common.schedule_of(case), long_term_days=case.get("long_term_days"), from_date=case.get("from"), to_date=case.get("to"),
        allow_negative=bool(case.get("allow_negative")), assets=assets,
    )


def sheet_cells(rows: List[List[files.Cell]]) -> List[List[Tuple[Any, Any]]]:
    return [[(c.value, c.formula) for c in row] for row in rows]


def evaluate(case: Dict[str, Any]) -> Outcome:
    out = Outcome()
    mode = case["mode"]
    out.classes.add(f"relation_{mode}")
    out.classes.add(f"country_{case['country']}")
    method = case.get("method") or ("schedule" if case.get("schedule") else "default")
    out.classes.add(f"method_{method}")
    folder = cli_common.work_dir("c17")
    try:
        base_dir = os.path.join(folder, "base")
        result, ini, ods, outdir = cli_common.run_case(case, base_dir)
        if result.rc != 0:
            out.skipped = "run_failed(C16)"
            return out
        base = report_contents(outdir)
        if mode == "a":
            out.nontrivial = True
            other_dir = os.path.join(folder, "other")
            os.makedirs(other_dir, exist_ok=True)
            second, _, _, outdir2 = cli_common.run_case(case, other_dir, hashseed=case["hashseed"], paths=(ini, ods))
            if second.rc != 0:
                out.fail("hash_seed_changes_outcome", f"PYTHONHASHSEED={case['hashseed']}: exit status {second.rc} (0 with seed 0)")
                return out
            compare_contents(out, "hash_seed_changes_report", f"PYTHONHASHSEED 0 vs {case['hashseed']}", base, report_contents(outdir2))
            third, _, _, outdir3 = cli_common.run_case(case, os.path.join(folder, "again"), hashseed="0", paths=(ini, ods))
            if not out.violations and third.rc == 0:
                compare_contents(out, "repeated_run_differs", "two runs with identical options and hash seed", base, report_contents(outdir3))
        elif mode == "c":
            variant = permuted(case)
            identity = variant["assets"] == case["assets"] and list(variant["assets"]) == list(case["assets"])
            if not identity:
                out.nontrivial = True
                out.classes.add("non_identity_permutation")
            rows_model = filegen.case_post_rows(case)
            for rows in rows_model.values():
                txs = [t for t in model.make_txs(rows) if t.row > 0]
                if len({t.us for t in txs}) != len(txs):
                    out.skipped = "instants_not_distinct"
                    return out
                lots = [t for t in txs if t.is_lot]
                if len({t.price for t in lots}) < len(lots):
                    out.classes.add("equal_price_lots")
            second, ini2, ods2, outdir2 = cli_common.run_case(variant, os.path.join(folder, "perm"))
            if second.rc != 0:
                out.fail("permutation_changes_outcome", f"after permuting rows/tables/sheets the run exits with {second.rc}: {second.err[-300:]}")
                return out
            if not compare_contents(out, "permutation_changes_report", "rows/tables/sheets permuted", base, report_contents(outdir2)):
                return out
            ref1 = api_reference(case, ini, ods)
            ref2 = api_reference(variant, ini2, ods2)
            if ref1.get("ok") and ref2.get("ok"):
                for asset in ref1["assets"]:
                    if dump_by_uid(ref1, asset) != dump_by_uid(ref2, asset):
                        out.fail("permutation_changes_computed_data", f"asset {asset}: normalised ComputedData dump differs after permuting rows/tables/sheets")
                        return out
        else:
            out.nontrivial = True
            asset_a = case["asset_a"]
            lang = c13.effective_lang(case)
            label = cli.method_label(case.get("method"), case.get("schedule"), case["country"])
            full = report_model.FullReport(os.path.join(outdir, f"{label}_rp2_full_report.ods"), lang)
            # -a A on the same files
            only_opt = dict(case, asset_opt=asset_a)
            second, _, _, outdir2 = cli_common.run_case(only_opt, os.path.join(folder, "opt"), paths=(ini, ods))
            # an input holding only A
            alone = copy.deepcopy(case)
            alone["assets"] = {asset_a: alone["assets"][asset_a]}
            third, ini3, ods3, outdir3 = cli_common.run_case(alone, os.path.join(folder, "alone"))
            for what, res, directory in (("-a " + asset_a, second, outdir2), ("input holding only " + asset_a, third, outdir3)):
                if res.rc != 0:
                    out.fail("asset_subset_changes_outcome", f"{what}: exit status {res.rc}: {res.err[-300:]}")
                    return out
                sub = report_model.FullReport(os.path.join(directory, f"{label}_rp2_full_report.ods"), lang)
                for sheet in (full.in_out_name(asset_a), full.tax_name(asset_a)):
                    if sheet_cells(full.sheets[sheet]) != sheet_cells(sub.sheets.get(sheet, [])):
                        a, b = sheet_cells(full.sheets[sheet]), sheet_cells(sub.sheets.get(sheet, []))
                        idx = next((i for i, (x, y) in enumerate(zip(a, b)) if x != y), min(len(a), len(b)))
                        out.fail("asset_results_depend_on_other_assets", f"{what}: sheet '{sheet}' differs from the run with all assets at row {idx + 1}: {a[idx][:8] if idx < len(a) else None} vs {b[idx][:8] if idx < len(b) else None}")
                        return out
                _, lines_full = full.table_rows(full.summary_name(), "Yearly Gain / Loss Summary", 0)
                _, lines_sub = sub.table_rows(sub.summary_name(), "Yearly Gain / Loss Summary", 0)
                mine = [[files.cell_payload(c) for c in row[:8]] for _, row in lines_full if cellv(row, 1) == asset_a]
                theirs = [[files.cell_payload(c) for c in row[:8]] for _, row in lines_sub if cellv(row, 1) == asset_a]
                if mine != theirs:
                    out.fail("asset_results_depend_on_other_assets", f"{what}: Summary lines of {asset_a} differ: {mine[:2]} vs {theirs[:2]}")
                    return out
                tax_name = f"{label}_tax_report_{case['country']}.ods"
                if case["country"] == "jp" and os.path.exists(os.path.join(outdir, tax_name)):
                    # the asset's year sheets (values and formula text, i.e. also which sheet the opening balance refers to)
                    jp_full = files.read_ods(os.path.join(outdir, tax_name))
                    jp_sub = files.read_ods(os.path.join(directory, tax_name)) if os.path.exists(os.path.join(directory, tax_name)) else {}
                    mine_jp = {name: sheet_cells(rows) for name, rows in jp_full.items() if name.startswith(asset_a + "_") and name[len(asset_a) + 1 :].isdigit()}
                    theirs_jp = {name: sheet_cells(rows) for name, rows in jp_sub.items() if name.startswith(asset_a + "_") and name[len(asset_a) + 1 :].isdigit()}
                    if mine_jp != theirs_jp:
                        differing = sorted(set(mine_jp) ^ set(theirs_jp)) or [n for n in mine_jp if mine_jp[n] != theirs_jp[n]]
                        detail = ""
                        for name in differing[:1]:
                            a, b = mine_jp.get(name, []), theirs_jp.get(name, [])
                            idx = next((i for i, (x, y) in enumerate(zip(a, b)) if x != y), min(len(a), len(b)))
                            detail = f" (sheet '{name}' row {idx + 1}: {a[idx][:9] if idx < len(a) else None} vs {b[idx][:9] if idx < len(b) else None})"
                        out.fail("asset_results_depend_on_other_assets", f"{what}: tax_report_jp sheets of {asset_a} differ from the run with all assets: {differing[:3]}{detail}")
                        return out
                if case["country"] in ("us", "ie") and os.path.exists(os.path.join(outdir, tax_name)):
                    def tax_rows(path: str) -> List[Any]:
                        collected = []
                        for name, rows in files.read_ods(path).items():
                            if name == "Legend":
                                continue
                            for row in rows[7:]:
                                if cellv(row, 1) == asset_a:
                                    collected.append((name, tuple(files.cell_payload(c) for c in row[:16])))
                        return sorted(collected, key=repr)

                    if tax_rows(os.path.join(outdir, tax_name)) != tax_rows(os.path.join(directory, tax_name)):
                        out.fail("asset_results_depend_on_other_assets", f"{what}: tax report rows of {asset_a} differ from the run with all assets")
                        return out
            # API: same engine / configuration objects, A computed after the other assets vs alone
            together = api_reference(case, ini, ods)
            single = api_reference(case, ini, ods, assets=[asset_a])
            if together.get("ok") and single.get("ok") and dump_by_uid(together, asset_a) != dump_by_uid(single, asset_a):
                out.fail("asset_results_depend_on_other_assets", f"API: ComputedData of {asset_a} differs when other assets are computed before it with the same engine and configuration")
                return out
    finally:
        cli_common.cleanup(folder)
    return out


# ---------------------------------------------------------------------------------------------- (b) state machine


def machine(tier: str, record: Callable[[Any, Outcome], None], raise_or_known: Callable[[Any, str, str], None]) -> Any:
    class OutputDirectoryHistory(RuleBasedStateMachine):
        def __init__(self) -> None:
            super().__init__()
            self.folder = cli_common.work_dir("c17m")
            self.outdir = os.path.join(self.folder, "shared_out")
            self.case: Optional[Dict[str, Any]] = None
            self.tuples: List[Dict[str, Any]] = []
            self.references: Dict[int, Dict[str, bytes]] = {}
            self.history: List[Any] = []
            self.paths: Optional[Tuple[str, str]] = None
            self.reruns = 0

        @initialize(case=filegen.file_case(countries=("us", "generic", "ie"), hist=HIST, max_assets=2, windows=False), seeds=st.lists(st.integers(0, 10**6), min_size=3, max_size=3))
        def setup(self, case: Dict[str, Any], seeds: List[int]) -> None:
            self.case = case
            self.paths = filegen.materialize(case, os.path.join(self.folder, "input"))
            methods = cli.COUNTRY_METHODS[case["country"]]
            days = sorted({t.day for rows in filegen.case_post_rows(case).values() for t in model.make_txs(rows)})
            base = {"method": case.get("method"), "schedule": case.get("schedule"), "lang": case.get("lang"), "from": None, "to": None, "prefix": None}
            self.tuples = [dict(base)]
            self.tuples.append(dict(base, method=methods[seeds[0] % len(methods)] if not case.get("schedule") else case.get("method"), to=days[seeds[1] % len(days)].isoformat()))
            self.tuples.append(dict(base, **{"from": days[seeds[2] % len(days)].isoformat()}, prefix="p_" if seeds[2] % 2 else None))

        def _run(self, index: int, outdir: str) -> cli.CliResult:
            options = dict(self.case, **self.tuples[index])
            result, _, _, _ = cli_common.run_case(options, self.folder, outdir=outdir, paths=self.paths)
            return result

        def _names(self, index: int) -> List[str]:
            options = dict(self.case, **self.tuples[index])
            label = cli.method_label(options.get("method"), options.get("schedule"), options["country"])
            return cli.expected_report_names(options["country"], label, options.get("prefix") or "")

        @rule(index=st.integers(0, 2))
        def run_tuple(self, index: int) -> None:
            if index not in self.references:
                fresh = os.path.join(self.folder, f"fresh_{index}")
                reference_run = self._run(index, fresh)
                self.references[index] = report_contents(fresh) if reference_run.rc == 0 else {}
            dirty = os.path.isdir(self.outdir) and bool(os.listdir(self.outdir))
            before = set(os.listdir(self.outdir)) if os.path.isdir(self.outdir) else set()
            result = self._run(index, self.outdir)
            self.history.append(["run", index, "dirty" if dirty else "empty"])
            if dirty:
                self.reruns += 1
            snapshot = {"mode": "b", "case": self.case, "tuples": self.tuples, "history": list(self.history)}
            if (result.rc == 0) != bool(self.references[index]):
                raise_or_known(snapshot, "directory_contents_change_outcome", f"option tuple {self.tuples[index]}: exit status {result.rc} in the used directory, {'0' if self.references[index] else 'non-zero'} in an empty one")
                return
            if result.rc != 0:
                return
            created = set(os.listdir(self.outdir)) - before - set(self._names(index))
            if created:
                raise_or_known(snapshot, "directory_contents_change_files_written", f"after {self.history}: the run left {sorted(created)} in the output directory besides its reports {self._names(index)} (nothing of the kind is written into an empty directory)")
                return
            now = report_contents(self.outdir, self._names(index))
            for name in self._names(index):
                if name not in now:
                    raise_or_known(snapshot, "directory_contents_change_report", f"after {self.history}: report {name} missing from the shared directory")
                    return
                if now[name] != self.references[index].get(name):
                    raise_or_known(snapshot, "directory_contents_change_report", f"after {self.history}: content.xml of {name} differs from the first run of the same options in an empty directory; {first_difference(now[name], self.references[index].get(name, b''))}")
                    return

        @rule(kind=st.integers(0, 3))
        def drop_junk(self, kind: int) -> None:
            os.makedirs(self.outdir, exist_ok=True)
            if kind == 0:
                open(os.path.join(self.outdir, "notes.txt"), "w", encoding="utf-8").write("junk")
            elif kind == 1:
                os.makedirs(os.path.join(self.outdir, "fifo_rp2_full_report.ods.d"), exist_ok=True)
            elif kind == 2:
                open(os.path.join(self.outdir, ".~lock.fifo_rp2_full_report.ods#"), "w", encoding="utf-8").write("lock")
            else:
                open(os.path.join(self.outdir, "mixed_open_positions.ods.tmp"), "wb").write(b"\x00" * 10)
            self.history.append(["junk", kind])

        @rule(index=st.integers(0, 2), kind=st.integers(0, 2))
        def stale_reports(self, index: int, kind: int) -> None:
            os.makedirs(self.outdir, exist_ok=True)
            for name in self._names(index):
                path = os.path.join(self.outdir, name)
                if kind == 0:
                    open(path, "wb").write(b"not an ods file")
                elif kind == 1:
                    open(path, "wb").write(b"")
                else:
                    other = [p for p in os.listdir(self.outdir) if p.endswith(".ods") and p != name]
                    if other:
                        shutil.copyfile(os.path.join(self.outdir, other[0]), path)
            self.history.append(["stale", index, kind])

        def teardown(self) -> None:
            if self.case is not None:
                out = Outcome()
                out.classes.add("relation_b_output_directory_history")
                out.nontrivial = self.reruns > 0
                out.metrics["reruns_into_used_directory"] = self.reruns
                record({"mode": "b", "case": self.case, "tuples": self.tuples, "history": self.history}, out)
            cli_common.cleanup(self.folder)

    return OutputDirectoryHistory


def replay_evaluate(case: Dict[str, Any]) -> Outcome:
    if case.get("mode") != "b":
        return evaluate(case)
    # replay of a state-machine history
    out = Outcome()
    folder = cli_common.work_dir("c17r")
    try:
        base = case["case"]
        paths = filegen.materialize(base, os.path.join(folder, "input"))
        outdir = os.path.join(folder, "shared_out")
        references: Dict[int, Dict[str, bytes]] = {}

        def names(index: int) -> List[str]:
            options = dict(base, **case["tuples"][index])
            return cli.expected_report_names(options["country"], cli.method_label(options.get("method"), options.get("schedule"), options["country"]), options.get("prefix") or "")

        for step in case["history"]:
            if step[0] == "run":
                index = step[1]
                options = dict(base, **case["tuples"][index])
                if index not in references:
                    fresh = os.path.join(folder, f"fresh_{index}")
                    res, _, _, _ = cli_common.run_case(options, folder, outdir=fresh, paths=paths)
                    references[index] = report_contents(fresh) if res.rc == 0 else {}
                res, _, _, _ = cli_common.run_case(options, folder, outdir=outdir, paths=paths)
                if (res.rc == 0) != bool(references[index]):
                    out.fail("directory_contents_change_outcome", f"tuple {index}: exit {res.rc}")
                    return out
                if res.rc == 0:
                    now = report_contents(outdir, names(index))
                    for name in names(index):
                        if now.get(name) != references[index].get(name):
                            out.fail("directory_contents_change_report", f"after {step}: {name} differs from the first run in an empty directory")
                            return out
            elif step[0] == "junk":
                os.makedirs(outdir, exist_ok=True)
                open(os.path.join(outdir, f"junk_{step[1]}.txt"), "w", encoding="utf-8").write("junk")
            else:
                os.makedirs(outdir, exist_ok=True)
                for name in names(step[1]):
                    open(os.path.join(outdir, name), "wb").write(b"not an ods file")
    finally:
        cli_common.cleanup(folder)
    return out
