"""C07 - account balances equal the flows of each account and reconcile with unsold lots.

Oracle (from the rows with own date <= to-date): per (exchange, holder) acquired / sent / received / final, the set of
accounts touched (each exactly once), and the reconciliation sum(final) = sum(lot amounts) - sum(fraction amounts that
have a lot) over the same horizon.
"""
from __future__ import annotations

from fractions import Fraction
from typing import Any, Dict, List

from hypothesis import strategies as st

from .. import drive_api, e2e, gen, model
from ..engine_common import engine_case, history_classes, inject_overdraft
from ..runner import Outcome

ID = "C07"
LEVEL = "exploration"
RULE = (
    "Constructed date-monotone multi-account histories (2-3 exchanges x 1-2 holders, transfers between all account pairs "
    "incl. to-self, with and without fee) of 4-18 transactions, valid by construction, x methods x random to-date; with "
    "allow_negative_balances an overdraft is injected on purpose in a third of the cases and in a further quarter some debits "
    "are moved to an account that nothing funds (the unrecorded-transfer scenario the switch exists for). Oracle: per-account flow sums "
    "from the rows + reconciliation with the fraction list. Non-trivial = >= 2 accounts and >= 1 transfer; distinct by hash."
)
ASSUMPTIONS = [
    "date-monotone histories (R3); per-holder totals are a report-level figure and are checked by C13",
    "cases that over-spend the whole holding (rejected by the matcher, C02) are skipped and counted",
]
RULE += e2e.RULE_SUFFIX

CFG = gen.GenCfg(min_steps=4, max_steps=18, max_exchanges=3, max_holders=2)


def budget(tier: str) -> Dict[str, Any]:
    return {"shards": 16, "examples": 1200 if tier == "quick" else 15000, "examples2": 8 if tier == "quick" else 150}


@st.composite
def strategy_case(draw: Any) -> Dict[str, Any]:
    allow = draw(st.booleans())
    case = draw(engine_case(CFG, allow_negative=allow))
    case["overdraft"] = None
    if allow and draw(st.integers(0, 2)) == 0:
        case["overdraft"] = draw(inject_overdraft(case))
    elif allow and draw(st.integers(0, 2)) == 0:
        case["overdraft"] = draw(unfunded_account(case))
    txs = model.make_txs(case["rows"])
    case["to"] = draw(gen.window_date(txs)) if draw(st.booleans()) else None
    case["from"] = None
    if draw(st.integers(0, 2)) == 0:
        # balances are "up to the to-date" whatever the from-date is: a from-date must not change a single balance figure
        first = draw(gen.window_date(txs))
        if first and (case["to"] is None or first <= case["to"]):
            case["from"] = first
    return case


@st.composite
def unfunded_account(draw: Any, case: Dict[str, Any]) -> Any:
    """What allow_negative_balances exists for: the transfer that funded an account was never recorded, so that account only
    ever pays out.  One or more debits are moved to an account nothing else in the history touches (a further configured
    exchange when every account is in use); the holding as a whole still covers them."""
    rows = case["rows"]
    targets = [i for i, r in enumerate(rows) if r["row"] >= 0 and r["table"] in ("out", "intra")]
    if not targets:
        return None
    used = set()
    for r in rows:
        if r["table"] == "intra":
            used.add((r["from_ex"], r["from_ho"]))
            used.add((r["to_ex"], r["to_ho"]))
        else:
            used.add((r["ex"], r["ho"]))
    free = [(e, h) for e in case["exchanges"] for h in case["holders"] if (e, h) not in used]
    if not free:
        extra = [e for e in gen.EXCHANGE_NAMES if e not in case["exchanges"]]
        if not extra:
            return None
        case["exchanges"] = list(case["exchanges"]) + [extra[0]]
        free = [(extra[0], h) for h in case["holders"]]
    account = draw(st.sampled_from(free))
    chosen = draw(st.lists(st.sampled_from(targets), min_size=1, max_size=3, unique=True))
    for i in chosen:
        row = dict(rows[i])
        if row["table"] == "intra":
            row["from_ex"], row["from_ho"] = account
        else:
            row["ex"], row["ho"] = account
        rows[i] = row
    return {"unfunded_account": list(account), "rows": sorted(rows[i]["row"] for i in chosen)}


def strategy(tier: str) -> Any:
    return strategy_case()


def balance_violations(out: Outcome, txs: List[model.Tx], dump: Dict[str, Any], to_date: Any, rows_only: bool = False) -> None:
    expected = model.account_flows(txs, to_date)
    seen = {}
    for bal in dump["balances"]:
        key = (bal["ex"], bal["ho"])
        if key in seen:
            out.fail("account_listed_twice", f"account {key} appears twice in the balance set")
            return
        seen[key] = bal
    if set(seen) != set(expected):
        out.fail("accounts_mismatch", f"balance set lists {sorted(seen)}, accounts touched up to the to-date are {sorted(expected)}")
        return
    for key, flows in expected.items():
        bal = seen[key]
        for name, exp in (("acquired", flows.acquired), ("sent", flows.sent), ("received", flows.received), ("final", flows.final)):
            if bal[name] != exp:
                out.fail(f"balance_{name}_mismatch", f"account {key}: reported {name} = {bal[name]}, sum over its transactions up to {to_date} = {exp}")
                return
        if bal["final"] != bal["acquired"] + bal["received"] - bal["sent"]:
            out.fail("balance_identity", f"account {key}: final {bal['final']} != acquired + received - sent")
            return
        if flows.final < 0:
            out.classes.add("negative_final_with_n")
    if rows_only:
        return
    by_row = {t.row: t for t in txs}
    lots_total = sum((t.crypto_in for t in txs if t.is_lot and (to_date is None or t.day <= to_date)), Fraction(0))
    consumed = sum((f["amount"] for f in dump["fractions"] if f["lot"] is not None and (to_date is None or by_row[f["ev"]].day <= to_date)), Fraction(0))
    total_final = sum((b["final"] for b in dump["balances"]), Fraction(0))
    if "ins" in dump and dump["ins"]:
        # the same identity through the other place where rp2 reports what is left in a lot: the sold percentage of each
        # acquisition (In-Flow 'Sent/Sold' column, open positions)
        sold_by_row = {entry["row"]: entry["sold_pct"] for entry in dump["ins"]}
        lots_upto = [t for t in txs if t.is_lot and (to_date is None or t.day <= to_date)]
        if all(t.row in sold_by_row for t in lots_upto):
            unsold = sum((t.crypto_in * (1 - sold_by_row[t.row]) for t in lots_upto), Fraction(0))
            if abs(unsold - total_final) > dump.get("ins_rel", Fraction(1, 10**18)) * max(lots_total, Fraction(1)):
                out.fail(
                    "balances_do_not_reconcile_with_sold_percentages",
                    f"sum of final balances = {total_final}; by the sold percentages of the acquisitions up to {to_date} the lots still hold {unsold} (acquired {lots_total})",
                )
                return
    if total_final != lots_total - consumed:
        out.fail(
            "balances_do_not_reconcile_with_lots",
            f"sum of final balances = {total_final}, lots acquired up to {to_date} = {lots_total}, consumed by fractions = {consumed} -> unconsumed {lots_total - consumed}",
        )


E2E_HIST = gen.GenCfg(min_steps=5, max_steps=16, max_exchanges=3, max_holders=2, bulk_prob=0.02, ops=("in", "in", "out", "out", "intra", "intra"))


def e2e_judge(out: Outcome, case: Dict[str, Any], txs: List[model.Tx], dump: Dict[str, Any]) -> None:
    """'Account Balances' table of the report (account rows and per-holder Total rows) against the generated rows."""
    to_date = model.parse_date(case.get("to"))
    balance_violations(out, txs, dump, to_date, rows_only=bool(case.get("from")))
    if out.violations:
        return
    flows = model.account_flows(txs, to_date)
    totals: Dict[str, Fraction] = {}
    for (_ex, holder), flow in flows.items():
        totals[holder] = totals.get(holder, Fraction(0)) + flow.final
    if set(dump["holder_totals"]) != set(totals):
        out.fail("holder_totals_mismatch", f"'Total' rows exist for holders {sorted(dump['holder_totals'])}, holders with accounts are {sorted(totals)}")
        return
    for holder, total in totals.items():
        if dump["holder_totals"][holder] != total:
            out.fail("holder_total_wrong", f"Total of holder {holder} shows {dump['holder_totals'][holder]}, the final balances of that holder's accounts add up to {total}")
            return
    if len(totals) >= 2 and len(flows) >= 3:
        out.nontrivial = True
        out.classes.add("e2e_several_holders_and_accounts")


def strategy2(tier: str) -> Any:
    """End-to-end tier (rp2v/e2e.py): joint-filing inputs (2 holders x 3 exchanges, transfers between all pairs) through the
    console entry point, with and without a to-date; balances and per-holder totals read back from the report."""
    return e2e.file_strategy(E2E_HIST, countries=("us", "us", "generic", "ie", "jp"), to_dates=True, from_dates=True, flavours=("mixed", "transfer_heavy"))


def minimize(case: Dict[str, Any], clause: str) -> Dict[str, Any]:
    return e2e.minimize(case, clause, evaluate) if case.get("e2e") else case


def evaluate(case: Dict[str, Any]) -> Outcome:
    if case.get("e2e"):
        return e2e.evaluate_assets(case, "c07e", lambda out, asset, txs, dump, schedule: e2e_judge(out, case, txs, dump))
    out = Outcome()
    txs = model.make_txs(case["rows"])
    out.classes |= history_classes(txs, case["schedule"])
    if not model.is_date_monotone(txs):
        out.skipped = "non_monotone_dates(R3)"
        return out
    accounts = set()
    for t in txs:
        if t.table == "intra":
            accounts.add((t.from_ex, t.from_ho))
            accounts.add((t.to_ex, t.to_ho))
            if (t.from_ex, t.from_ho) == (t.to_ex, t.to_ho):
                out.classes.add("transfer_to_self")
        else:
            accounts.add((t.ex, t.ho))
    if len(accounts) >= 2 and any(t.table == "intra" for t in txs):
        out.nontrivial = True
    to_date = model.parse_date(case.get("to"))
    if to_date is not None and any(t.day > to_date for t in txs):
        out.classes.add("to_date_cuts_history")
    if case.get("overdraft"):
        out.classes.add("unfunded_account_pays_out" if "unfunded_account" in case["overdraft"] else "overdraft_injected")
    dump = drive_api.run_case(case, from_date="", to_date=case.get("to") or "")
    if not dump["ok"]:
        if model.overspend_somewhere(txs):
            out.skipped = "whole_holding_overspent(C02)"
            return out
        verdict, _ = model.overdraft_verdict([t for t in txs if to_date is None or t.day <= to_date])
        if not case["allow_negative"] and verdict != "accept":
            out.skipped = "overdraft_without_n(C08)"
            return out
        out.fail("valid_history_rejected", f"{dump['error_type']}: {dump['error'][:300]}")
        return out
    balance_violations(out, txs, dump, to_date)
    if not out.violations and case.get("from"):
        out.classes.add("with_from_date")
        windowed = drive_api.run_case(case, from_date=case["from"], to_date=case.get("to") or "")
        if not windowed["ok"]:
            out.fail("from_date_changes_outcome", f"the run succeeds without a from-date and fails with from={case['from']}: {windowed['error_type']}: {windowed['error'][:200]}")
            return out
        balance_violations(out, txs, windowed, to_date, rows_only=True)
        if out.violations:
            out.violations = [(clause, f"[with from-date {case['from']}] {detail}") for clause, detail in out.violations]
    return out
