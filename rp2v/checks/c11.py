"""C11 - parsed transactions equal the spreadsheet rows for any column layout.

Generator: per table a random injective map field -> column in 0..(n+4) with a mandatory field in column 0 (R9),
optional fields mapped or not, unmapped columns filled with junk, tables in any order, 0-3 blank rows between tables,
1-3 sheets, 0-8 rows per table, numeric cells pairwise distinct within a row, optional cells empty with p = 1/2,
numbers with up to 11 decimals, IN rows with fiat fee / crypto fee.
Oracle: Configuration + open_ods + parse_ods (in-process) field by field against the generated rows.
"""
from __future__ import annotations

import os
from decimal import Decimal
from fractions import Fraction
from typing import Any, Dict, List, Optional, Tuple

from hypothesis import strategies as st

from .. import drive_api, files, gen, model
from ..runner import Outcome

ID = "C11"
LEVEL = "exploration"
RULE = (
    "Hypothesis: random injective field->column layouts (mandatory field in column 0, optional fields mapped or not, "
    "junk in unmapped columns), table order permuted, 0-3 blank rows, 1-3 sheets, 0-8 rows per table with row content "
    "built from the documented domain (all 14 types in any letter case, numbers with <= 11 decimals pairwise distinct in "
    "a row, optional cells empty with p=1/2, fiat-fee and crypto-fee acquisitions, fee-less transfers without price). "
    "Oracle: parse_ods output field by field (instant and offset, strings, numbers = the cell's double rounded to 11 "
    "decimals, documented defaults, ids = sheet rows, counts, crypto-fee split). Non-trivial = a non-identity layout with "
    ">= 1 optional column unmapped; distinct by case hash."
)
ASSUMPTIONS = [
    "inputs are written with ezodf (not under test); one sample per shard is cross-checked against raw content.xml",
    "column 0 holds a mandatory field; header row textual (R9); crypto-fee rows have in x price >= 1e-12 (R13)",
]

EXCHANGES = ["Coinbase", "Coinbase Pro", "Kraken"]
HOLDERS = ["Bob", "Alice"]
SHEETS = ["BTC", "ETH", "B1"]
OPTIONAL = {
    "in": ["crypto_fee", "fiat_in_no_fee", "fiat_in_with_fee", "fiat_fee", "unique_id", "notes"],
    "out": ["crypto_out_with_fee", "fiat_out_no_fee", "fiat_fee", "unique_id", "notes"],
    "intra": ["spot_price", "unique_id", "notes"],
}
JUNK = ["n/a", "x", 12345.678, -1.5, "2020-01-01", "TABLE END?", 0, "IN ", "=1+1"]
_STATE = {"xml_checked": False}


def budget(tier: str) -> Dict[str, Any]:
    return {"shards": 16, "examples": 150 if tier == "quick" else 4000}


@st.composite
def number(draw: Any, used: set, lo: int = 1, hi: int = 10**9 * gen.UNIT) -> str:
    """A positive decimal string with <= 11 decimals, distinct from the ones already used in this row."""
    for _ in range(20):
        kind = draw(st.integers(0, 4))
        if kind == 0:
            units = draw(st.integers(1, 1000)) * gen.UNIT
        elif kind == 1:
            units = draw(st.integers(1, 10**7)) * (gen.UNIT // 100)
        elif kind == 2:
            units = draw(st.integers(1, 10**6))  # dust .. 1e-5
        elif kind == 3:
            units = draw(st.integers(1, 30000 * gen.UNIT))
        else:
            units = draw(st.integers(lo, hi))
        units = max(lo, min(hi, units))
        text = gen.units_to_str(units)
        if text not in used:
            used.add(text)
            return text
    return text


@st.composite
def timestamp(draw: Any) -> str:
    us = gen._year_start_us(draw(st.integers(2010, 2030))) + draw(st.integers(0, 365 * 86400 - 1)) * gen.US
    if draw(st.booleans()):
        us += draw(st.integers(1, 999_999))
    text = model.fmt_ts(us, draw(st.sampled_from(gen.OFFSETS_MIN + [-3 * 60 - 30, 12 * 60 + 45])))
    return text.replace(" ", "T", 1) if draw(st.integers(0, 3)) == 0 else text


def _case_of(draw: Any, word: str) -> str:
    return draw(st.sampled_from([word.upper(), word.lower(), word.capitalize()]))


@st.composite
def table_rows(draw: Any, table: str, mapped: List[str]) -> List[Dict[str, Any]]:
    rows: List[Dict[str, Any]] = []
    for i in range(draw(st.integers(1 if table == "in" else 0, 8))):
        used: set = set()
        row: Dict[str, Any] = {"table": table, "ts": draw(timestamp())}
        if table == "in":
            row.update(ex=draw(st.sampled_from(EXCHANGES)), ho=draw(st.sampled_from(HOLDERS)), type=_case_of(draw, draw(st.sampled_from(model.IN_TYPES))))
            row["price"] = draw(number(used, lo=gen.UNIT // 1000, hi=10**7 * gen.UNIT))
            row["crypto_in"] = draw(number(used, lo=1000))
            fee_mode = draw(st.integers(0, 2))
            if fee_mode == 1 and "fiat_fee" in mapped:
                row["fiat_fee"] = draw(number(used))
            elif fee_mode == 2 and "crypto_fee" in mapped and model.F(row["crypto_in"]) * model.F(row["price"]) >= Fraction(1, 10**9):
                row["crypto_fee"] = draw(number(used, hi=10**6 * gen.UNIT))
            for key in ("fiat_in_no_fee", "fiat_in_with_fee"):
                if key in mapped and draw(st.booleans()):
                    row[key] = draw(number(used, lo=gen.UNIT // 100))
        elif table == "out":
            ttype = draw(st.sampled_from(model.OUT_TYPES))
            row.update(ex=draw(st.sampled_from(EXCHANGES)), ho=draw(st.sampled_from(HOLDERS)), type=_case_of(draw, ttype))
            if ttype == "fee":
                row["price"] = draw(number(used, hi=10**7 * gen.UNIT)) if draw(st.integers(0, 3)) else "0"
                row["out"] = "0"
                row["fee"] = draw(number(used))
            else:
                row["price"] = draw(number(used, hi=10**7 * gen.UNIT))
                row["out"] = draw(number(used))
                row["fee"] = draw(number(used)) if draw(st.booleans()) else "0"
            if "crypto_out_with_fee" in mapped and draw(st.booleans()):
                row["out_with_fee"] = gen._frac_to_str(model.F(files_canonical(row["out"])) + model.F(files_canonical(row["fee"])))  # consistent (R4)
            if "fiat_out_no_fee" in mapped and ttype != "fee" and draw(st.booleans()):
                row["fiat_out_no_fee"] = draw(number(used, lo=gen.UNIT // 100))
            if "fiat_fee" in mapped and draw(st.booleans()):
                row["fiat_fee"] = draw(number(used))
        else:
            row.update(from_ex=draw(st.sampled_from(EXCHANGES)), from_ho=draw(st.sampled_from(HOLDERS)), to_ex=draw(st.sampled_from(EXCHANGES)), to_ho=draw(st.sampled_from(HOLDERS)))
            row["sent"] = draw(number(used, lo=1000))
            fee_mode = draw(st.integers(0, 3))
            if fee_mode == 0:
                row["received"] = row["sent"]
                if "spot_price" in mapped:
                    choice = draw(st.integers(0, 2))
                    if choice == 0:
                        row["price"] = draw(number(used, hi=10**7 * gen.UNIT))
                    elif choice == 1:
                        row["price"] = "0"
            else:
                sent_units = gen.str_to_units(row["sent"])
                recv_units = draw(st.integers(0 if fee_mode == 3 else 1, sent_units - 1)) if sent_units > 1 else 0
                row["received"] = gen.units_to_str(recv_units)
                if "spot_price" not in mapped:
                    row["received"] = row["sent"]  # a fee needs a price: no price column -> fee-less transfer
                else:
                    row["price"] = draw(number(used, lo=gen.UNIT // 1000, hi=10**7 * gen.UNIT))
        if "unique_id" in mapped and draw(st.booleans()):
            row["uid"] = f"{table}-{i}-{draw(st.integers(0, 10**6))}" if draw(st.integers(0, 4)) else float(draw(st.integers(1, 10**6)))
        if "notes" in mapped and draw(st.booleans()):
            row["notes"] = draw(st.sampled_from(["note", "two words", "semi; colon", "ünïcode ✓", "123"]))
        rows.append(row)
    return rows


def files_canonical(text: str) -> str:
    value = Decimal(f"{float(text):.11f}")
    return format(value, "f")


@st.composite
def strategy_case(draw: Any) -> Dict[str, Any]:
    layout: Dict[str, Dict[str, int]] = {}
    identity = draw(st.integers(0, 5)) == 0
    for table in ("in", "out", "intra"):
        fields = list(files.MANDATORY[table])
        unmapped = [] if identity else [f for f in OPTIONAL[table] if draw(st.booleans())]
        fields += [f for f in OPTIONAL[table] if f not in unmapped]
        if identity:
            order = [f for f in files.TABLE_FIELDS[table] if f in fields]
            layout[table] = {f: i for i, f in enumerate(order)}
            continue
        n_cols = len(fields) + draw(st.integers(0, 4))
        first = draw(st.sampled_from(files.MANDATORY[table]))
        columns = draw(st.permutations(list(range(1, n_cols))))
        rest = [f for f in fields if f != first]
        layout[table] = {first: 0}
        for f, c in zip(rest, columns):
            layout[table][f] = c
    n_sheets = draw(st.integers(1, 3))
    assets: Dict[str, Any] = {}
    for name in SHEETS[:n_sheets]:
        order = draw(st.permutations(["in", "out", "intra"]))
        tables = []
        for table in order:
            rows = draw(table_rows(table, list(layout[table])))
            if rows or table == "in" or draw(st.booleans()):
                tables.append([table, rows])
        assets[name] = {"tables": tables, "blank": draw(st.integers(0, 3)), "first_blank": draw(st.integers(0, 2))}
    width = max(max(cols.values()) for cols in layout.values()) + 1
    junk_seed = draw(st.integers(0, 10**6))
    return {"layout": layout, "assets": assets, "exchanges": EXCHANGES, "holders": HOLDERS, "identity_layout": identity, "junk_seed": junk_seed, "extra_width": draw(st.integers(0, 2)), "width": width}


def strategy(tier: str) -> Any:
    return strategy_case()


def build_files(case: Dict[str, Any], folder: str) -> Tuple[str, str, Dict[str, List[List[Any]]]]:
    """Write config + spreadsheet; junk goes to every column that the table's layout does not map."""
    os.makedirs(folder, exist_ok=True)
    layout = case["layout"]
    grids: Dict[str, List[List[Any]]] = {}
    junk_i = case["junk_seed"]
    for asset, spec in case["assets"].items():
        width = max(max(cols.values()) for cols in layout.values()) + 1 + case.get("extra_width", 0)
        grid: List[List[Any]] = [[None] * width for _ in range(spec.get("first_blank", 0))]
        for table, rows in spec["tables"]:
            grid.append([table.upper()] + [None] * (width - 1))
            header: List[Any] = [f"col {c}" for c in range(width)]
            for field, col in layout[table].items():
                header[col] = field.replace("_", " ").title()
            grid.append(header)
            mapped_cols = set(layout[table].values())
            for row in rows:
                row["row"] = len(grid) + 1
                junk: List[Any] = []
                for c in range(width):
                    junk_i += 1
                    junk.append(None if c in mapped_cols or junk_i % 3 == 0 else JUNK[junk_i % len(JUNK)])
                cells = files.row_cells(table, asset, {k: v for k, v in row.items() if k != "uid" or not isinstance(v, float)}, layout[table], width, junk)
                if isinstance(row.get("uid"), float):
                    cells[layout[table]["unique_id"]] = row["uid"]
                grid.append(cells)
            grid.append(["TABLE END"] + [None] * (width - 1))
            for _ in range(spec.get("blank", 1)):
                grid.append([None] * width)
        grids[asset] = grid
    ini = os.path.join(folder, "c11.ini")
    ods = os.path.join(folder, "c11.ods")
    files.write_ini(ini, list(case["assets"]), case["exchanges"], case["holders"], layout)
    files.write_ods(ods, [(a, grids[a]) for a in case["assets"]])
    return ini, ods, grids


def num(text: Optional[str]) -> Optional[Fraction]:
    """What 'taken with at least 11 decimal digits' means for a spreadsheet number: the cell's double rounded to 11 decimals."""
    if text is None:
        return None
    return Fraction(Decimal(f"{float(text):.11f}"))


def expected_rows(asset: str, spec: Dict[str, Any]) -> Tuple[Dict[int, Dict[str, Any]], Dict[int, Dict[str, Any]], Dict[int, Dict[str, Any]], List[Dict[str, Any]]]:
    exp_in: Dict[int, Dict[str, Any]] = {}
    exp_out: Dict[int, Dict[str, Any]] = {}
    exp_intra: Dict[int, Dict[str, Any]] = {}
    artificial: List[Dict[str, Any]] = []
    for table, rows in spec["tables"]:
        for row in rows:
            us, off = model.parse_ts(row["ts"].replace("T", " "))
            uid = row.get("uid")
            common = dict(row=row["row"], us=us, off=off, asset=asset, uid=(str(uid) if uid is not None else ""), notes=row.get("notes", ""))
            if table == "in":
                price = num(row["price"])
                crypto_in = num(row["crypto_in"])
                crypto_fee = num(row.get("crypto_fee")) or Fraction(0)
                fiat_fee = num(row.get("fiat_fee"))
                if fiat_fee is None:
                    fiat_fee = crypto_fee * price
                no_fee = num(row.get("fiat_in_no_fee"))
                if no_fee is None:
                    no_fee = crypto_in * price
                with_fee = num(row.get("fiat_in_with_fee"))
                if with_fee is None:
                    with_fee = no_fee + fiat_fee
                exp_in[row["row"]] = dict(common, ex=row["ex"], ho=row["ho"], type=row["type"].lower(), price=price, crypto_in=crypto_in, crypto_fee=Fraction(0), fiat_fee=fiat_fee, fiat_in_no_fee=no_fee, fiat_in_with_fee=with_fee, split=crypto_fee > 0)
                if crypto_fee > 0:
                    artificial.append(dict(us=us, off=off, asset=asset, ex=row["ex"], ho=row["ho"], type="fee", price=price, out=Fraction(0), fee=crypto_fee, out_with_fee=crypto_fee, fiat_out_no_fee=Fraction(0), fiat_fee=crypto_fee * price, uid=common["uid"], for_row=row["row"]))
            elif table == "out":
                price = num(row["price"])
                out_v = num(row["out"])
                fee = num(row["fee"])
                owf = num(row.get("out_with_fee"))
                fo = num(row.get("fiat_out_no_fee"))
                ff = num(row.get("fiat_fee"))
                exp_out[row["row"]] = dict(
                    common, ex=row["ex"], ho=row["ho"], type=row["type"].lower(), price=price, out=out_v, fee=fee, out_with_fee=owf if owf is not None else out_v + fee,
                    fiat_out_no_fee=fo if fo is not None else out_v * price, fiat_fee=ff if ff is not None else fee * price,
                )
            else:
                sent = num(row["sent"])
                received = num(row["received"])
                price = num(row.get("price")) or Fraction(0)
                exp_intra[row["row"]] = dict(
                    common, from_ex=row["from_ex"], from_ho=row["from_ho"], to_ex=row["to_ex"], to_ho=row["to_ho"], type="move", price=price, sent=sent, received=received, fee=sent - received, fiat_fee=(sent - received) * price,
                )
    return exp_in, exp_out, exp_intra, artificial


REL = Fraction(1, 10**25)


def same(a: Any, b: Any) -> bool:
    if isinstance(a, Fraction) and isinstance(b, Fraction):
        return a == b or abs(a - b) <= REL * max(abs(a), abs(b))
    return a == b


def compare_table(out: Outcome, asset: str, table: str, expected: Dict[int, Dict[str, Any]], got: List[Dict[str, Any]]) -> bool:
    got_rows = [g["row"] for g in got]
    if sorted(got_rows) != sorted(expected):
        skipped = sorted(set(expected) - set(got_rows))
        extra = sorted(set(got_rows) - set(expected))
        twice = sorted({r for r in got_rows if got_rows.count(r) > 1})
        out.fail("rows_skipped_or_doubled", f"{asset}/{table}: sheet rows {sorted(expected)} expected; parsed {sorted(got_rows)} (skipped {skipped}, unexpected {extra}, twice {twice})")
        return False
    for g in got:
        e = expected[g["row"]]
        for key, value in e.items():
            if key in ("split",):
                continue
            if key == "notes" and e.get("split"):
                if not g["notes"].startswith(value):
                    out.fail("field_mismatch", f"{asset}/{table} row {g['row']}: notes {g['notes']!r} do not start with the cell's notes {value!r}")
                    return False
                continue
            if not same(g[key], value):
                out.fail("field_mismatch", f"{asset}/{table} sheet row {g['row']}: field {key}: parsed {g[key]!r}, spreadsheet row holds {value!r}")
                return False
    return True


def evaluate(case: Dict[str, Any]) -> Outcome:
    out = Outcome()
    folder = os.path.join(os.getcwd(), "c11")
    ini, ods, grids = build_files(case, folder)
    layout = case["layout"]
    unmapped = any(f not in layout[t] for t in ("in", "out", "intra") for f in OPTIONAL[t])
    if not case.get("identity_layout") and unmapped:
        out.nontrivial = True
    out.classes.add("identity_layout" if case.get("identity_layout") else "permuted_layout")
    if any([t for t, _ in spec["tables"]] != sorted([t for t, _ in spec["tables"]], key=["in", "out", "intra"].index) for spec in case["assets"].values()):
        out.classes.add("table_order_not_in_out_intra")
    if any(r.get("crypto_fee") for spec in case["assets"].values() for _, rows in spec["tables"] for r in rows):
        out.classes.add("crypto_fee_row")
    if any(len(cols) < max(cols.values()) + 1 for cols in layout.values()) or case.get("extra_width"):
        out.classes.add("junk_columns")
    if len(case["assets"]) > 1:
        out.classes.add("several_sheets")
    if not _STATE["xml_checked"]:
        # ezodf wrote the input: cross-check one sample per process against the raw content.xml
        _STATE["xml_checked"] = True
        raw = files.read_ods(ods)
        for asset, grid in grids.items():
            for r, row in enumerate(grid):
                for c, value in enumerate(row):
                    cell = raw[asset][r][c] if r < len(raw[asset]) and c < len(raw[asset][r]) else files.Cell()
                    have = cell.value
                    want = float(value) if isinstance(value, (int, float)) else value
                    if (want is None and have not in (None, "")) or (want is not None and have != want):
                        raise RuntimeError(f"harness: ezodf wrote {have!r} for intended {want!r} at {asset}[{r},{c}]")
    try:
        _, inputs = drive_api.parse_files(ini, ods)
    except Exception as exc:  # pylint: disable=broad-except
        if not drive_api._raised_inside_rp2(exc):
            raise
        out.fail("valid_input_rejected", f"{type(exc).__name__}: {str(exc)[:400]} [{drive_api._innermost_rp2_frame(exc)}]")
        return out
    for asset, spec in case["assets"].items():
        exp_in, exp_out, exp_intra, artificial = expected_rows(asset, spec)
        dump = drive_api.dump_input(inputs[asset])
        real_out = [g for g in dump["out"] if g["row"] >= 0]
        art_out = [g for g in dump["out"] if g["row"] < 0]
        if not compare_table(out, asset, "in", exp_in, dump["in"]):
            return out
        if not compare_table(out, asset, "out", exp_out, real_out):
            return out
        if not compare_table(out, asset, "intra", exp_intra, dump["intra"]):
            return out
        if len(art_out) != len(artificial):
            out.fail("crypto_fee_split_count", f"{asset}: {len(artificial)} acquisitions carry a crypto fee, {len(art_out)} artificial fee disposals were created")
            return out
        if len({g["row"] for g in art_out}) != len(art_out):
            out.fail("artificial_ids_not_unique", f"{asset}: artificial ids {[g['row'] for g in art_out]}")
            return out
        remaining = list(art_out)
        for exp in artificial:
            match = None
            for g in remaining:
                if all(same(g[k], v) for k, v in exp.items() if k != "for_row"):
                    match = g
                    break
            if match is None:
                out.fail(
                    "crypto_fee_split_mismatch",
                    f"{asset}: acquisition in sheet row {exp['for_row']} has crypto fee {exp['fee']}: no artificial FEE disposal with the same instant/account/price for exactly that amount "
                    f"(candidates: {[(g['row'], g['fee'], g['price'], g['ex'], g['ho']) for g in art_out]})",
                )
                return out
            remaining.remove(match)
    return out
