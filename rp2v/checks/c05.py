"""C05 - long-term vs short-term classification follows the holding period.

Oracle: long <=> the fraction has a lot and (disposal_us - acquisition_us) >= period * 86400e6, instants from the
model's own timestamp parser (time zones compared as instants); income -> short; never for JP / IE; the configured
LONG_TERM_CAPITAL_GAINS value for the generic plugin.  Each fraction is judged on its own lot.

Two parts: (a) an exhaustive boundary grid (run by `extra`, flagged exhaustive), (b) Hypothesis-generated multi-lot
disposals with lots on both sides of the threshold, income events and random offsets.
"""
from __future__ import annotations

import itertools
from concurrent.futures import ProcessPoolExecutor
from datetime import date
from fractions import Fraction
from typing import Any, Dict, List, Optional, Tuple

from hypothesis import strategies as st

from .. import drive_api, e2e, gen, model
from ..runner import Outcome, case_hash, enter_scratch, jsonable, leave_scratch

ID = "C05"
LEVEL = "exploration"
RULE = (
    "(a) exhaustive grid: acquisition instants {ordinary, Feb 28/29 of leap and non-leap years, Dec 31 23:59:59} x offset "
    "pairs from {-12,-8,0,+5:30,+9,+14}^2 x elapsed = period*24h + {-1s,-1us,0,+1us,+1s} x {US 365, ES 365, JP never, IE "
    "never, generic LONG_TERM_CAPITAL_GAINS in {0,1,30,365,366,730,10^9}}; (b) Hypothesis: one or two disposals spanning "
    "1-4 lots acquired on both sides of the threshold (deltas from 1us to years), income events, random offsets, every "
    "country plugin. Oracle: instant arithmetic in integer microseconds. Non-trivial = |elapsed - threshold| <= 1 day, or "
    "differing offsets, or a disposal over several lots; distinct by case hash."
)
ASSUMPTIONS = [
    "periods that would place the disposal after year 9999 (10^9 days, JP/IE sys.maxsize) are exercised as 'never long-term' with finite elapsed times",
    "the generic plugin is constructed in-process under a patched environment (CURRENCY_CODE, LONG_TERM_CAPITAL_GAINS)",
]
RULE += e2e.RULE_SUFFIX

DAY = model.US_PER_DAY
SEC = 1_000_000
OFFSETS = [-12 * 60, -(9 * 60 + 30), -8 * 60, -(3 * 60 + 30), 0, 5 * 60 + 30, 9 * 60, 12 * 60 + 45, 14 * 60]
DELTAS = [-SEC, -1, 0, 1, SEC]
COUNTRIES: List[Tuple[str, Optional[int]]] = [("us", None), ("es", None), ("jp", None), ("ie", None)] + [("generic", d) for d in (0, 1, 30, 365, 366, 730, 10**9)]


def period_of(country: str, long_term_days: Optional[int]) -> Optional[int]:
    """Threshold in days; None = never long-term."""
    if country in ("us", "es"):
        return 365
    if country in ("jp", "ie"):
        return None
    return long_term_days


def _us(y: int, m: int, d: int, hh: int = 0, mm: int = 0, ss: int = 0) -> int:
    return ((date(y, m, d) - date(1970, 1, 1)).days * 86400 + hh * 3600 + mm * 60 + ss) * SEC


ACQ_INSTANTS = [
    _us(2019, 5, 17, 13, 45, 10),
    _us(2019, 2, 28, 23, 30, 0),
    _us(2020, 2, 28, 12, 0, 0),
    _us(2020, 2, 29, 6, 0, 0),
    _us(2019, 12, 31, 23, 59, 59),
    _us(2020, 12, 31, 23, 59, 59),
]


def make_case(
    country: str, ltd: Optional[int], lots: List[Tuple[int, int]], sells: List[Tuple[int, int, str]], incomes: List[Tuple[int, int]], out_type: str = "sell", income_type: str = "interest"
) -> Dict[str, Any]:
    """lots: (us, off) each of amount 1; sells: (us, off, amount) of type out_type; incomes: (us, off) of type income_type."""
    rows: List[Dict[str, Any]] = []
    row = 3
    for us, off in lots:
        rows.append({"table": "in", "row": row, "ts": model.fmt_ts(us, off), "ex": "Kraken", "ho": "Bob", "type": "buy", "price": "100", "crypto_in": "1", "uid": f"l{row}"})
        row += 1
    for us, off in incomes:
        rows.append({"table": "in", "row": row, "ts": model.fmt_ts(us, off), "ex": "Kraken", "ho": "Bob", "type": income_type, "price": "120", "crypto_in": "0.5", "uid": f"i{row}"})
        row += 1
    for us, off, amount in sells:
        if out_type == "fee":
            rows.append({"table": "out", "row": row, "ts": model.fmt_ts(us, off), "ex": "Kraken", "ho": "Bob", "type": "fee", "price": "150", "out": "0", "fee": amount, "uid": f"s{row}"})
        else:
            rows.append({"table": "out", "row": row, "ts": model.fmt_ts(us, off), "ex": "Kraken", "ho": "Bob", "type": out_type, "price": "150", "out": amount, "fee": "0", "uid": f"s{row}"})
        row += 1
    case: Dict[str, Any] = {"asset": "B1", "exchanges": ["Kraken"], "holders": ["Bob"], "rows": rows, "schedule": {"1970": "fifo"}, "country": country, "allow_negative": True}
    if ltd is not None:
        case["long_term_days"] = ltd
    return case


def budget(tier: str) -> Dict[str, Any]:
    return {"shards": 16, "examples": 500 if tier == "quick" else 10000, "examples2": 14 if tier == "quick" else 200}


@st.composite
def strategy_case(draw: Any) -> Dict[str, Any]:
    country, ltd = draw(st.sampled_from(COUNTRIES))
    period = period_of(country, ltd)
    place = 365 if period is None or period > 5000 else period
    sell_us = _us(draw(st.integers(2012, 2030)), draw(st.integers(1, 12)), draw(st.integers(1, 28)), draw(st.integers(0, 23)), draw(st.integers(0, 59)), draw(st.integers(0, 59)))
    if draw(st.booleans()):
        sell_us += draw(st.integers(0, 999_999))
    n_lots = draw(st.integers(1, 4))
    lots: List[Tuple[int, int]] = []
    for _ in range(n_lots):
        kind = draw(st.integers(0, 5))
        if kind <= 2:
            delta = draw(st.sampled_from([-SEC, -1, 0, 1, SEC, -3600 * SEC, 3600 * SEC, -DAY + 1, DAY - 1, -DAY, DAY]))
        elif kind == 3:
            delta = draw(st.integers(-2 * DAY, 2 * DAY))
        else:
            delta = draw(st.integers(-place * DAY, 1500 * DAY))
        elapsed = max(0, place * DAY + delta)
        lots.append((sell_us - elapsed, draw(st.sampled_from(OFFSETS))))
    incomes: List[Tuple[int, int]] = []
    if draw(st.integers(0, 2)) == 0:
        incomes.append((sell_us - draw(st.integers(0, 900)) * DAY - draw(st.integers(0, DAY)), draw(st.sampled_from(OFFSETS))))
    sells: List[Tuple[int, int, str]] = []
    if n_lots >= 2 and draw(st.booleans()):
        # two disposals at the same or at different instants, each over part of the lots
        first = draw(st.sampled_from(["0.5", "1", "1.5"]))
        rest = gen._frac_to_str(model.F(n_lots) - model.F(first))
        later = sell_us + draw(st.sampled_from([0, 1, SEC, DAY]))
        sells = [(sell_us, draw(st.sampled_from(OFFSETS)), first), (later, draw(st.sampled_from(OFFSETS)), rest)]
    else:
        sells = [(sell_us, draw(st.sampled_from(OFFSETS)), str(n_lots))]
    # every disposal type (OUT/STAKING, the one type that is also an earn type, included) and every earn type
    case = make_case(country, ltd, lots, sells, incomes, out_type=draw(st.sampled_from(model.OUT_TYPES)), income_type=draw(st.sampled_from(model.EARN_TYPES)))
    case["schedule"] = {"1970": draw(st.sampled_from(model.METHODS if country in ("us", "generic") else ("fifo",)))}
    return case


def strategy(tier: str) -> Any:
    return strategy_case()


def long_short_violations(out: Outcome, txs: List[model.Tx], fractions: List[Dict[str, Any]], country: str, long_term_days: Optional[int], yearly: Optional[List[Dict[str, Any]]] = None) -> None:
    by_row = {t.row: t for t in txs}
    period = period_of(country, long_term_days)
    if yearly is not None:
        # the yearly summary "reports" fractions as long- or short-term as well: per (year, type) the crypto amount on its LONG
        # line must be the total of the fractions whose two timestamps make them long-term (model flags, not rp2's)
        want: Dict[Tuple[int, str, bool], Fraction] = {}
        for fraction in fractions:
            event = by_row[fraction["ev"]]
            is_long = False
            if fraction["lot"] is not None and period is not None:
                is_long = event.us - by_row[fraction["lot"]].us >= period * DAY
            key = (event.year, event.type, is_long)
            want[key] = want.get(key, Fraction(0)) + fraction["amount"]
        have: Dict[Tuple[int, str, bool], Fraction] = {}
        for line in yearly:
            key = (int(line["year"]), str(line["type"]), bool(line["long"]))
            have[key] = have.get(key, Fraction(0)) + (line["crypto"] or Fraction(0))
        if {k: v for k, v in have.items() if v} != {k: v for k, v in want.items() if v}:
            diff = sorted(set(have.items()) ^ set(want.items()))[:4]
            out.fail("yearly_summary_long_short", f"the yearly summary files crypto amounts under (year, type, long) = {sorted(have.items())}; by the holding periods of the fractions it should be {sorted(want.items())} (difference: {diff})")
            return
    per_event: Dict[int, set] = {}
    for idx, fraction in enumerate(fractions):
        event = by_row[fraction["ev"]]
        if fraction["lot"] is None:
            out.classes.add("income_event")
            if fraction["long"]:
                out.fail("income_long_term", f"income event row {event.row} reported as long-term")
                return
            continue
        lot = by_row[fraction["lot"]]
        per_event.setdefault(event.row, set()).add(lot.row)
        elapsed = event.us - lot.us
        expected = period is not None and elapsed >= period * DAY
        threshold = (period if period is not None and period < 5000 else 365) * DAY
        if abs(elapsed - threshold) <= DAY:
            out.nontrivial = True
            out.classes.add("within_one_day_of_threshold")
        if abs(elapsed - threshold) <= SEC:
            out.classes.add("within_one_second_of_threshold")
        if lot.off != event.off:
            out.nontrivial = True
            out.classes.add("differing_offsets")
        if fraction["long"] != expected:
            out.fail(
                "long_short_flag",
                f"fraction {idx}: lot row {lot.row} acquired {lot.ts}, disposed {event.ts} (row {event.row}): elapsed {elapsed} us = "
                f"{elapsed // DAY} whole days; threshold {period} days for {country}"
                f"{'/' + str(long_term_days) if long_term_days is not None else ''} -> expected "
                f"{'LONG' if expected else 'SHORT'}, reported {'LONG' if fraction['long'] else 'SHORT'}",
            )
            return
    if any(len(v) >= 2 for v in per_event.values()):
        out.nontrivial = True
        out.classes.add("disposal_over_several_lots")
    longs = {f["long"] for f in fractions if f["lot"] is not None}
    if len(longs) == 2:
        out.classes.add("mixed_long_and_short")


E2E_HIST = gen.GenCfg(min_steps=4, max_steps=14, max_exchanges=2, max_holders=2, long_gaps=True, bulk_prob=0.02, ops=("in", "in", "in", "out", "out", "out", "intra"))


def strategy2(tier: str) -> Any:
    """End-to-end tier (rp2v/e2e.py): LONG / SHORT read from the full report's detail rows of real runs of every entry point
    (crypto-fee acquisitions and their re-created timestamps included), judged against the generated instants."""
    return e2e.file_strategy(E2E_HIST, countries=("us", "us", "generic", "generic", "ie", "jp"))


def minimize(case: Dict[str, Any], clause: str) -> Dict[str, Any]:
    return e2e.minimize(case, clause, evaluate) if case.get("e2e") else case


def evaluate(case: Dict[str, Any]) -> Outcome:
    if case.get("e2e"):
        return e2e.evaluate_assets(case, "c05e", lambda out, asset, txs, dump, schedule: long_short_violations(out, txs, dump["fractions"], case["country"], case.get("long_term_days"), yearly=dump["yearly"]))
    out = Outcome()
    txs = model.make_txs(case["rows"])
    out.classes.add(f"country_{case['country']}" + (f"_{case['long_term_days']}" if case.get("long_term_days") is not None else ""))
    dump = drive_api.run_case(case)
    if not dump["ok"]:
        out.fail("valid_history_rejected", f"{dump['error_type']}: {dump['error'][:300]}")
        return out
    long_short_violations(out, txs, dump["fractions"], case["country"], case.get("long_term_days"), yearly=dump["yearly"])
    return out


# ---------------------------------------------------------------------------------------------- exhaustive grid


def _grid_points() -> List[Tuple[str, Optional[int], int, int, int, int]]:
    points = []
    for (country, ltd), acq, (o1, o2), delta in itertools.product(COUNTRIES, ACQ_INSTANTS, itertools.product(OFFSETS, OFFSETS), DELTAS):
        period = period_of(country, ltd)
        place = 365 if period is None or period > 5000 else period
        elapsed = place * DAY + delta
        if elapsed < 0:
            continue
        points.append((country, ltd, acq, o1, o2, elapsed))
    return points


def _grid_chunk(points: List[Tuple[str, Optional[int], int, int, int, int]]) -> Dict[str, Any]:
    enter_scratch()
    try:
        violations = []
        hashes = []
        classes: Dict[str, int] = {}
        sample = None
        for country, ltd, acq, o1, o2, elapsed in points:
            case = make_case(country, ltd, [(acq, o1)], [(acq + elapsed, o2, "1")], [])
            out = evaluate(case)
            hashes.append(case_hash(case))
            for cls in out.classes:
                classes[cls] = classes.get(cls, 0) + 1
            if sample is None:
                sample = {"classes": sorted(out.classes), "case": jsonable(case)}
            for clause, detail in out.violations:
                violations.append({"clause": clause, "detail": detail, "case": case})
        return {"n": len(points), "violations": violations[:5], "hashes": hashes, "classes": classes, "sample": sample}
    finally:
        leave_scratch()


def extra(tier: str, seed: int) -> Dict[str, Any]:
    points = _grid_points()
    chunks = [points[i::16] for i in range(16)]
    result: Dict[str, Any] = {"evaluations": 0, "nontrivial_hashes": [], "classes": {}, "samples": [], "violations": [], "coverage": {}}
    with ProcessPoolExecutor(max_workers=16) as pool:
        for res in pool.map(_grid_chunk, chunks):
            result["evaluations"] += res["n"]
            result["nontrivial_hashes"].extend(res["hashes"])
            for cls, n in res["classes"].items():
                result["classes"][cls] = result["classes"].get(cls, 0) + n
            if res["sample"] and len(result["samples"]) < 1:
                result["samples"].append(res["sample"])
            result["violations"].extend(res["violations"])
    result["violations"] = result["violations"][:3]
    result["coverage"] = {"grid_points": len(points), "exhaustive": False, "grid_exhaustive": True}
    return result
