"""C18 - no network, no subprocess, writes confined to the output and log directories.

Static part (exhaustive over a finite set): every *.py under src/rp2 of the working tree is parsed with `ast`; any import
of a networking / process facility or a call of os.system/popen/exec*/spawn*/fork is a violation.
Dynamic part: real CLI runs (valid inputs from C16's generator, invalid ones from C12's catalogue, all five entry points)
under an interpreter audit hook installed before rp2 is imported; no network / process event may occur, every written
or removed path must lie under the chosen output directory or ./log, dynamic imports requested by rp2 code must stay
inside rp2.plugin.*, and the config and spreadsheet must be byte-identical (SHA-256) with unchanged mtime afterwards.
"""
from __future__ import annotations

import ast
import hashlib
import json
import os
from typing import Any, Dict, List, Optional, Tuple

from hypothesis import strategies as st

from .. import cli, cli_common, filegen, gen
from ..runner import Outcome, case_hash
from . import c12, c16

ID = "C18"
LEVEL = "exploration"
RULE = (
    "Static: exhaustive ast scan of every module of src/rp2 (enumerated at run time) against a deny-list of network / "
    "process modules and calls. Dynamic: Hypothesis-generated CLI runs under sys.addaudithook - half valid inputs "
    "from C16's generator (all entry points, methods, languages, windows, -n, -a, -p), half faulty inputs from C12's "
    "catalogue (every rejection path, RP2Error or not, is a code path of its own); decoy files named like the reports planted "
    "in the working directory, $HOME and a sibling of the output directory; events judged: socket.*, ssl.*, http/urllib/ftp/smtp, subprocess.Popen, os.system/exec/spawn/fork, open "
    "for writing, os.remove/rename/mkdir/rmdir/chmod/truncate/link, shutil.*, tempfile.*, importlib.import_module from "
    "rp2 frames; input files hashed before/after. Every run is non-trivial; distinct by case hash."
)
ASSUMPTIONS = [
    "audit hooks see what CPython reports; a C extension doing its own syscalls would escape (dependencies ezodf, lxml, babel, dateutil, jsonschema, pycountry, prezzemolo are trusted base)",
    "the deny-list oracle of the static part is finite and explicit (listed in rp2v/checks/c18.py)",
]

DENY_MODULES = {
    "socket", "ssl", "http", "urllib", "ftplib", "smtplib", "poplib", "imaplib", "telnetlib", "nntplib", "xmlrpc", "asyncio", "selectors", "socketserver",
    "requests", "httpx", "aiohttp", "urllib3", "websocket", "websockets", "paramiko", "subprocess", "multiprocessing", "pty", "webbrowser", "ctypes", "smtpd", "cgi", "wsgiref",
}
DENY_CALLS = {"system", "popen", "execl", "execle", "execlp", "execlpe", "execv", "execve", "execvp", "execvpe", "spawnl", "spawnle", "spawnlp", "spawnlpe", "spawnv", "spawnve", "spawnvp", "spawnvpe", "fork", "forkpty", "posix_spawn", "posix_spawnp", "startfile"}


def budget(tier: str) -> Dict[str, Any]:
    return {"shards": 16, "examples": 40 if tier == "quick" else 300, "shrink": False}


@st.composite
def strategy_case(draw: Any) -> Dict[str, Any]:
    if draw(st.booleans()):
        case = draw(c12.strategy_case(one_shot_weight=4))  # config / CLI / structure faults each have a rejection path of their own
        case["mode"] = "invalid"
        case["check_base"] = False
    else:
        case = draw(c16.strategy_case())
        case["mode"] = "valid"
    # decoys: files named like this run's reports (and their ezodf backups) lying in the working directory, in $HOME and in a
    # sibling of the output directory; a stale copy inside the output directory itself may be replaced, these may not be touched
    case["decoys"] = draw(st.sampled_from(["none", "cwd", "home", "outdir", "outdir", "all", "all", "log_is_file"]))
    # environment switches rp2 reads: LOG_LEVEL (documented in README.dev.md) and RP2_ENABLE_PROFILER (rp2_main)
    case["env"] = draw(st.sampled_from([{}, {}, {}, {"LOG_LEVEL": "DEBUG"}, {"RP2_ENABLE_PROFILER": "1"}, {"LOG_LEVEL": "DEBUG", "RP2_ENABLE_PROFILER": "1"}]))
    return case


def strategy(tier: str) -> Any:
    return strategy_case()


def _sha(path: str) -> Optional[str]:
    if not os.path.exists(path):
        return None
    with open(path, "rb") as handle:
        return hashlib.sha256(handle.read()).hexdigest()


def _under(path: str, roots: List[str]) -> bool:
    real = os.path.realpath(path)
    return any(real == root or real.startswith(root + os.sep) for root in roots)


def judge_log(out: Outcome, log_path: str, folder: str, outdir: str, label: str) -> None:
    roots = [os.path.realpath(outdir), os.path.realpath(os.path.join(folder, "log"))]
    if not os.path.exists(log_path):
        raise RuntimeError("harness: audit log was not written")
    started = False
    for line in open(log_path, encoding="utf-8"):
        record = json.loads(line)
        kind = record["kind"]
        if kind == "start":
            started = True
        elif kind == "network":
            out.fail("network_event", f"{label}: {record['event']} {record['args']}")
            return
        elif kind == "process":
            out.fail("process_event", f"{label}: {record['event']} {record['args']}")
            return
        elif kind == "write":
            path = record["path"]
            if isinstance(path, int):
                continue  # re-opening an existing descriptor
            full = path if os.path.isabs(path) else os.path.join(record["cwd"], path)
            if not _under(full, roots) and os.path.realpath(full) not in ("/dev/null",):
                out.fail("write_outside_output_and_log", f"{label}: file opened for writing (mode {record['mode']!r}): {full}")
                return
        elif kind == "fs":
            for path in record["paths"]:
                full = path if os.path.isabs(path) else os.path.join(record["cwd"], path)
                if not _under(full, roots):
                    out.fail("fs_change_outside_output_and_log", f"{label}: {record['event']} on {full}")
                    return
        elif kind == "dynamic_import":
            if not (record["name"].startswith("rp2.plugin.") or record["name"] == "rp2.plugin"):
                out.fail("dynamic_import_outside_plugins", f"{label}: rp2 code called import_module({record['name']!r}) from {record['caller']}")
                return
    if not started:
        raise RuntimeError("harness: audit hook did not start")


def plant_decoys(case: Dict[str, Any], folder: str, outdir: str) -> Dict[str, Tuple[str, int]]:
    """Create look-alike files outside the output directory; returns {path: (sha256, mtime_ns)}."""
    mode = case.get("decoys") or "none"
    if mode == "none":
        return {}
    if mode == "log_is_file":
        # ./log cannot be created: whatever rp2 does then (today it stops at import), it must not start writing elsewhere
        path = os.path.join(folder, "log")
        with open(path, "wb") as handle:
            handle.write(b"not a directory\n")
        os.utime(path, ns=(1_600_000_000_000_000_000, 1_600_000_000_000_000_000))
        return {path: (_sha(path) or "", os.stat(path).st_mtime_ns)}
    label = cli.method_label(case.get("method"), case.get("schedule"), case["country"])
    names = cli.expected_report_names(case["country"], label, case.get("prefix") or "")
    names += [n + ".bak" for n in names] + ["rp2_full_report.ods", "input.ods.bak"]
    places = [folder] if mode == "cwd" else [os.path.join(folder, "home")] if mode == "home" else [] if mode == "outdir" else [folder, os.path.join(folder, "home"), os.path.join(folder, "out_sibling")]
    planted: Dict[str, Tuple[str, int]] = {}
    for place in places:
        os.makedirs(place, exist_ok=True)
        for name in names:
            path = os.path.join(place, name)
            with open(path, "wb") as handle:
                handle.write(b"PK\x03\x04 decoy " + name.encode() + b"\n")
            os.utime(path, ns=(1_600_000_000_000_000_000, 1_600_000_000_000_000_000))
            planted[path] = (_sha(path) or "", os.stat(path).st_mtime_ns)
    if mode in ("all", "outdir"):
        # a stale report inside the output directory as well: replacing that one is legitimate ...
        os.makedirs(outdir, exist_ok=True)
        with open(os.path.join(outdir, names[0]), "wb") as handle:
            handle.write(b"stale")
        # ... but whatever else lies there is not rp2's to touch: somebody else's reports (other prefix), a spreadsheet of the
        # user's own, a copy of the input
        for name in ("alice_" + names[0], "my_notes_2023.ods", "input_copy.ods", "crypto_data.csv"):
            path = os.path.join(outdir, name)
            with open(path, "wb") as handle:
                handle.write(b"PK\x03\x04 not a report of this run " + name.encode() + b"\n")
            os.utime(path, ns=(1_600_000_000_000_000_000, 1_600_000_000_000_000_000))
            planted[path] = (_sha(path) or "", os.stat(path).st_mtime_ns)
    return planted


def evaluate(case: Dict[str, Any]) -> Outcome:
    out = Outcome()
    out.nontrivial = True
    out.classes.add(f"{case['mode']}_{case['country']}")
    out.classes.add(f"decoys_{case.get('decoys') or 'none'}")
    if case.get("from") or case.get("to"):
        out.classes.add("with_filter")
    folder = cli_common.work_dir("c18")
    try:
        log_path = os.path.join(folder, "audit.jsonl")
        planted = plant_decoys(case, folder, os.path.join(folder, "out"))
        home_env = {"HOME": os.path.join(folder, "home"), "TMPDIR": os.path.join(folder, "tmp")} if planted else {}
        if planted:
            os.makedirs(os.path.join(folder, "tmp"), exist_ok=True)
        home_env.update(case.get("env") or {})
        for key in case.get("env") or {}:
            out.classes.add(f"env_{key}")
        if case["mode"] == "invalid":
            ini, ods, extra_args, env = c12.build(case, folder)
            outdir = os.path.join(folder, "out")
            args = cli.build_args(ini, ods, outdir, method=case.get("method") if not case["fault"]["kind"].startswith("cli_method") else None, lang=case.get("lang"), extra=extra_args)
            env_extra: Dict[str, Any] = {"CURRENCY_CODE": "usd", "LONG_TERM_CAPITAL_GAINS": str(case.get("long_term_days", 365))} if case["country"] == "generic" else {}
            env_extra.update(env)
            env_extra.update(home_env)
            before = {p: (_sha(p), os.stat(p).st_mtime_ns if os.path.exists(p) else None) for p in (ini, ods)}
            result = cli.run_rp2(case["country"], args, cwd=folder, outdir=outdir, env_extra=env_extra, audit_log=log_path)
            label = f"rp2_{case['country']} on faulty input ({case['fault']['kind']})"
        else:
            ini, ods = filegen.materialize(case, folder)
            before = {p: (_sha(p), os.stat(p).st_mtime_ns) for p in (ini, ods)}
            result, ini, ods, outdir = cli_common.run_case(case, folder, audit_log=log_path, paths=(ini, ods), env_extra=home_env)
            label = f"rp2_{case['country']} {c16.option_tuple(case)}"
            if result.rc != 0:
                out.skipped = "valid_case_failed(C16)"
        judge_log(out, log_path, folder, outdir, label)
        if out.violations:
            return out
        for path, (digest, mtime) in before.items():
            if digest is None:
                continue
            if _sha(path) != digest:
                out.fail("input_file_modified", f"{label}: {os.path.basename(path)} is not byte-identical after the run")
                return out
            if os.path.exists(path) and os.stat(path).st_mtime_ns != mtime:
                out.fail("input_file_touched", f"{label}: modification time of {os.path.basename(path)} changed")
                return out
        for path, (digest, mtime) in planted.items():
            if not os.path.exists(path):
                out.fail("file_outside_output_removed", f"{label}: {os.path.relpath(path, folder)} (a look-alike of a report name outside the output directory) was deleted by the run")
                return out
            if _sha(path) != digest or os.stat(path).st_mtime_ns != mtime:
                out.fail("file_outside_output_modified", f"{label}: {os.path.relpath(path, folder)} (outside the output directory) was modified by the run")
                return out
        if case["mode"] == "valid" and result.rc == 0 and os.path.isdir(outdir):
            label_ = cli.method_label(case.get("method"), case.get("schedule"), case["country"])
            expected_names = set(cli.expected_report_names(case["country"], label_, case.get("prefix") or ""))
            extra_files = sorted(set(os.listdir(outdir)) - expected_names - {os.path.basename(p) for p in planted if os.path.dirname(p) == outdir})
            if extra_files:
                out.fail("unexpected_file_in_output_directory", f"{label}: besides its reports {sorted(expected_names)} the run left {extra_files} in the output directory")
                return out
        if planted and os.path.isdir(os.path.join(folder, "tmp")) and os.listdir(os.path.join(folder, "tmp")):
            out.fail("file_written_to_temp_directory", f"{label}: files left in $TMPDIR: {sorted(os.listdir(os.path.join(folder, 'tmp')))}")
            return out
        # anything new in the work folder besides inputs, audit log, output dir and ./log ?
        allowed = {"audit.jsonl", "log", os.path.basename(outdir), "input.ini", "input.ods", "input.xlsx", "out_base", "out_fault"}
        allowed |= {"home", "out_sibling", "tmp"} | {os.path.basename(p) for p in planted if os.path.dirname(p) == folder}
        strays = sorted(set(os.listdir(folder)) - allowed)
        if strays:
            out.fail("stray_file_in_working_directory", f"{label}: unexpected entries in the working directory: {strays}")
    finally:
        cli_common.cleanup(folder)
    return out


# ------------------------------------------------------------------------------------------------------- static


def scan_source(root: str) -> Tuple[int, List[Dict[str, Any]], List[str]]:
    violations: List[Dict[str, Any]] = []
    modules: List[str] = []
    for base, _dirs, names in os.walk(root):
        for name in sorted(names):
            if not name.endswith(".py"):
                continue
            path = os.path.join(base, name)
            rel = os.path.relpath(path, root)
            modules.append(rel)
            tree = ast.parse(open(path, encoding="utf-8").read(), filename=path)
            for node in ast.walk(tree):
                bad: Optional[str] = None
                if isinstance(node, ast.Import):
                    for alias in node.names:
                        if alias.name.split(".")[0] in DENY_MODULES:
                            bad = f"import {alias.name}"
                elif isinstance(node, ast.ImportFrom):
                    if node.module and node.level == 0 and node.module.split(".")[0] in DENY_MODULES:
                        bad = f"from {node.module} import ..."
                elif isinstance(node, ast.Call):
                    func = node.func
                    fname = func.attr if isinstance(func, ast.Attribute) else (func.id if isinstance(func, ast.Name) else "")
                    if fname in ("import_module", "__import__") and node.args and isinstance(node.args[0], ast.Constant) and isinstance(node.args[0].value, str):
                        if node.args[0].value.split(".")[0] in DENY_MODULES:
                            bad = f"{fname}({node.args[0].value!r})"
                    if isinstance(func, ast.Attribute) and isinstance(func.value, ast.Name) and func.value.id == "os" and func.attr in DENY_CALLS:
                        bad = f"os.{func.attr}(...)"
                    if fname in ("exec", "eval") and isinstance(func, ast.Name):
                        bad = f"{fname}(...) call"
                if bad:
                    violations.append({"clause": "source_imports_network_or_process_facility", "detail": f"{rel}:{getattr(node, 'lineno', '?')}: {bad}", "case": {"static": True, "file": rel, "what": bad}})
    return len(modules), violations, modules


def source_root() -> str:
    return os.environ.get("RP2V_REPO_SRC") or "/repo/src/rp2"


def extra(tier: str, seed: int) -> Dict[str, Any]:
    n, violations, modules = scan_source(source_root())
    if n < 30:
        raise RuntimeError(f"harness: only {n} modules found under {source_root()}")
    return {
        "evaluations": n,
        "nontrivial_hashes": [case_hash({"module": m}) for m in modules],
        "classes": {"static_module_scanned": n},
        "samples": [{"classes": ["static_module_scanned"], "case": {"module": modules[0]}}],
        "violations": violations[:5],
        "coverage": {"static_modules": n, "static_exhaustive": True},
    }


def replay_evaluate(case: Dict[str, Any]) -> Outcome:
    if case.get("static"):
        out = Outcome()
        _, violations, _ = scan_source(source_root())
        for vio in violations:
            out.fail(vio["clause"], vio["detail"])
        return out
    return evaluate(case)
