"""C04 - proceeds, cost basis and gain of every fraction are arithmetically exact.

Oracle: exact rational arithmetic (fractions.Fraction) on the input rows.  Per fraction: proceeds = T*a/total(e),
basis = K*a/amount(l), gain = proceeds - basis, agreement to 1e-15 relative (scale max(|proceeds|,|basis|) for the
gain, which cancels).  Re-assembly: an event's fractions add up to T, a fully consumed lot's fractions to K.
'No binary floating point': every figure is an RP2Decimal, and a monitor installed by the harness on
RP2Decimal.__float__ records any Decimal->float conversion during compute_tax.
"""
from __future__ import annotations

from fractions import Fraction
from typing import Any, Dict, List

from hypothesis import strategies as st

from .. import drive_api, e2e, gen, model
from ..engine_common import engine_case, history_classes
from ..runner import Outcome

ID = "C04"
LEVEL = "exploration"
RULE = (
    "Constructed histories with wide numerics (amounts 1e-11..1e9 with up to 11 decimals, prices 1e-8..1e7, tiny "
    "fractions of huge lots) and optional exchange-supplied fiat columns (fiat_in_no_fee, fiat_in_with_fee, fiat_fee, "
    "fiat_out_no_fee, crypto_out_with_fee; in a sixth of the cases one disposal's crypto fee carries a supplied fiat value of "
    "exactly 0), x methods x schedules. Oracle: exact Fraction model of T(e), K(l) and the "
    "pro-rata formulas, tolerance 1e-15 relative; float-conversion monitor. Non-trivial = a fraction whose ratio "
    "a/amount(l) or a/total(e) has a non-terminating decimal expansion, or a case with a supplied fiat column."
)
ASSUMPTIONS = [
    "supplied fiat values > 0 and crypto_out_with_fee consistent with amount + fee (R4)",
    "the monitor sees conversions that go through RP2Decimal.__float__ (float(x), '%f' % x, math functions)",
]
RULE += e2e.RULE_SUFFIX

CFG = gen.GenCfg(min_steps=2, max_steps=12, wide=True, fiat_columns=True, fiat_only_out_fee=True)
REL = Fraction(1, 10**15)
_MONITOR: Dict[str, Any] = {"installed": False, "hits": []}


def budget(tier: str) -> Dict[str, Any]:
    return {"shards": 16, "examples": 1500 if tier == "quick" else 20000, "examples2": 8 if tier == "quick" else 150}


@st.composite
def strategy_case(draw: Any) -> Dict[str, Any]:
    case = draw(engine_case(CFG))
    if draw(st.integers(0, 5)) == 0:
        # an exchange that reports the fiat value of a (dust-sized or waived) crypto fee as exactly 0: a supplied value like any
        # other ("if provided use them as given"), not an empty cell
        targets = [i for i, r in enumerate(case["rows"]) if r["table"] == "out" and r["row"] >= 0 and model.F(r["fee"]) > 0]
        if targets:
            i = draw(st.sampled_from(targets))
            case["rows"][i] = dict(case["rows"][i], fiat_fee="0")
            case["supplied_zero_fee"] = True
    return case


def strategy(tier: str) -> Any:
    return strategy_case()


def install_float_monitor() -> None:
    if _MONITOR["installed"]:
        return
    import traceback
    from decimal import Decimal

    api = drive_api.rp2()
    rp2_decimal = api["RP2Decimal"]

    def monitored_float(self: Any) -> float:
        stack = traceback.extract_stack(limit=6)
        where = "; ".join(f"{f.filename.split('/')[-1]}:{f.lineno}" for f in stack[:-1] if "/rp2/" in f.filename or "rp2v" not in f.filename)
        _MONITOR["hits"].append(where)
        return Decimal.__float__(self)

    rp2_decimal.__float__ = monitored_float  # type: ignore[assignment]
    _MONITOR["installed"] = True


def _terminates(frac: Fraction) -> bool:
    den = frac.denominator
    for p in (2, 5):
        while den % p == 0:
            den //= p
    return den == 1


def arithmetic_violations(out: Outcome, txs: List[model.Tx], dump: Dict[str, Any], tol: Fraction = REL) -> None:
    by_row = {t.row: t for t in txs}
    per_event_p: Dict[int, Fraction] = {}
    per_event_a: Dict[int, Fraction] = {}
    per_lot_b: Dict[int, Fraction] = {}
    per_lot_a: Dict[int, Fraction] = {}
    max_rel = Fraction(0)
    for idx, fraction in enumerate(dump["fractions"]):
        if any(name != "RP2Decimal" for name in fraction["types"]):
            out.fail("not_decimal", f"fraction {idx}: figures have types {fraction['types']}, expected RP2Decimal throughout")
            return
        event = by_row[fraction["ev"]]
        amount = fraction["amount"]
        ratio_e = amount / event.event_amount
        exp_p = event.taxable_fiat * ratio_e
        if fraction["lot"] is None:
            exp_b = Fraction(0)
            ratio_l = Fraction(1)
        else:
            lot = by_row[fraction["lot"]]
            ratio_l = amount / lot.crypto_in
            exp_b = lot.lot_cost * ratio_l
            per_lot_b[lot.row] = per_lot_b.get(lot.row, Fraction(0)) + fraction["basis"]
            per_lot_a[lot.row] = per_lot_a.get(lot.row, Fraction(0)) + amount
        exp_g = exp_p - exp_b
        per_event_p[event.row] = per_event_p.get(event.row, Fraction(0)) + fraction["proceeds"]
        per_event_a[event.row] = per_event_a.get(event.row, Fraction(0)) + amount
        if not _terminates(ratio_e) or not _terminates(ratio_l):
            out.nontrivial = True
            out.classes.add("non_terminating_ratio")
        scale = max(abs(exp_p), abs(exp_b))
        for name, got, exp, ref in (("proceeds", fraction["proceeds"], exp_p, abs(exp_p)), ("basis", fraction["basis"], exp_b, abs(exp_b)), ("gain", fraction["gain"], exp_g, scale)):
            if ref == 0:
                ok = got == exp
                rel = Fraction(0) if ok else Fraction(1)
            else:
                rel = abs(got - exp) / ref
                ok = rel <= tol
            max_rel = max(max_rel, rel)
            if not ok:
                lot_desc = "none" if fraction["lot"] is None else f"row {fraction['lot']}"
                out.fail(
                    f"{name}_inexact",
                    f"fraction {idx} (event row {event.row} {event.table}/{event.type}, lot {lot_desc}, amount {amount}): {name} = {got}, "
                    f"exact value {exp} (relative error {float(rel):.3e})",
                )
                return
    # re-assembly
    for row, total_a in per_event_a.items():
        event = by_row[row]
        if total_a == event.event_amount:
            exp = event.taxable_fiat
            got = per_event_p[row]
            ref = abs(exp)
            if (ref == 0 and got != 0) or (ref != 0 and abs(got - exp) / ref > tol):
                out.fail("event_pieces_do_not_add_up", f"event row {row}: proceeds of its fractions add to {got}, taxable fiat value is {exp}")
                return
    for row, total_a in per_lot_a.items():
        lot = by_row[row]
        if total_a == lot.crypto_in:
            out.classes.add("lot_fully_consumed")
            exp = lot.lot_cost
            got = per_lot_b[row]
            if abs(got - exp) / abs(exp) > tol:
                out.fail("lot_pieces_do_not_add_up", f"fully consumed lot row {row}: cost bases of its fractions add to {got}, its cost is {exp}")
                return
    out.metrics["max_rel_error"] = max_rel


E2E_HIST = gen.GenCfg(min_steps=4, max_steps=14, max_exchanges=2, max_holders=2, bulk_prob=0.03, fiat_columns=True)
E2E_REL = Fraction(1, 10**13)  # the gain cell is a double; proceeds and cost basis are exact decimals inside the HYPERLINK formulas


def strategy2(tier: str) -> Any:
    """End-to-end tier (rp2v/e2e.py): files (incl. crypto-fee acquisitions, which only exist on the parser's path) through the
    console entry point; proceeds / cost basis / gain read back from rp2_full_report.ods against the generated rows."""
    return e2e.file_strategy(E2E_HIST, countries=("us", "us", "generic", "ie", "jp"))


def minimize(case: Dict[str, Any], clause: str) -> Dict[str, Any]:
    return e2e.minimize(case, clause, evaluate) if case.get("e2e") else case


def evaluate(case: Dict[str, Any]) -> Outcome:
    if case.get("e2e"):
        return e2e.evaluate_assets(case, "c04e", lambda out, asset, txs, dump, schedule: arithmetic_violations(out, txs, dump, tol=E2E_REL))
    install_float_monitor()
    out = Outcome()
    txs = model.make_txs(case["rows"])
    out.classes |= history_classes(txs, case["schedule"])
    supplied = any(k in r for r in case["rows"] for k in ("fiat_in_no_fee", "fiat_in_with_fee", "fiat_out_no_fee", "out_with_fee")) or any(
        r["table"] == "out" and "fiat_fee" in r for r in case["rows"]
    )
    if supplied:
        out.nontrivial = True
        out.classes.add("supplied_fiat_column")
    if case.get("supplied_zero_fee"):
        out.classes.add("crypto_fee_with_supplied_fiat_value_zero")
    if any(t.is_lot and t.crypto_in >= 10**8 for t in txs):
        out.classes.add("huge_lot")
    if any(t.is_lot and t.crypto_in <= Fraction(1, 10**8) for t in txs):
        out.classes.add("dust_lot")
    _MONITOR["hits"].clear()
    dump = drive_api.run_case(case)
    hits = list(_MONITOR["hits"])
    if not dump["ok"]:
        if "RP2TypeError" in dump["error_type"] or "Float" in dump["error"]:
            out.fail("float_or_type_error", f"{dump['error_type']}: {dump['error'][:300]}")
        else:
            out.fail("valid_history_rejected", f"{dump['error_type']}: {dump['error'][:300]}")
        return out
    if hits:
        out.fail("binary_float_in_computation", f"{len(hits)} Decimal->float conversion(s) during compute_tax / result access, first at: {hits[0]}")
        return out
    arithmetic_violations(out, txs, dump)
    return out
