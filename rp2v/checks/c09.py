"""C09 - later transactions never change results already computed for earlier periods.

(a) stateful: RuleBasedStateMachine *GrowingHistory*.  Rules append a lot / income / disposal / transfer at an instant
    >= the last one ("tempting" lots -- higher priced, lower priced, newer -- on purpose); after every step the whole
    history is recomputed from scratch and, for every earlier step k that ended at an instant strictly before the new
    transaction, the fractions of all events <= T_k (pairing, amounts, proceeds, basis, gain, long flag) and the yearly
    lines of years closed before the new transactions must be identical to the snapshot taken at step k.
(b) to-date form: ComputedData of the full history with to_date=T equals, figure by figure, that of the history
    truncated to the entries dated <= T (fractions with k/n labels, yearly lines, balances, average price, running sums).
"""
from __future__ import annotations

from fractions import Fraction
from typing import Any, Callable, Dict, List, Optional, Tuple

from hypothesis import strategies as st
from hypothesis.stateful import RuleBasedStateMachine, initialize, invariant, precondition, rule

from .. import cli_common, drive_api, e2e, filegen, gen, model
from ..engine_common import engine_case, history_classes
from ..runner import Outcome

ID = "C09"
LEVEL = "exploration"
RULE = (
    "(a) Hypothesis RuleBasedStateMachine GrowingHistory: rules append lot / income / disposal / transfer (new-instant "
    "probability 0.75, disposals sized from holdings, tempting lots drawn on purpose), <= 14 steps, method/schedule a "
    "machine parameter; invariant after every step compares the recomputed history with the snapshots of all earlier "
    "steps (every cut point of the history). (b) constructed date-monotone histories + a to-date T: run(full, to=T) vs "
    "run(rows dated <= T). Non-trivial = the continuation contains a lot that the method ranks above an earlier lot with "
    "unconsumed balance while the prefix already has a disposal (a), or T cuts the history after a disposal (b)."
)
ASSUMPTIONS = [
    "cut points lie between two distinct instants; histories of form (b) are date-monotone (R3)",
    "allow_negative_balances=True in (a) (single account; the matcher is what is observed)",
]
RULE += e2e.RULE_SUFFIX

FIELDS = ("ev", "lot", "amount", "proceeds", "basis", "gain", "long")
CFG_B = gen.GenCfg(min_steps=4, max_steps=16, max_exchanges=2, max_holders=2)


def budget(tier: str) -> Dict[str, Any]:
    if tier == "quick":
        return {"shards": 16, "examples": 400, "machine_examples": 120, "machine_steps": 14, "examples2": 10}
    return {"shards": 16, "examples": 6000, "machine_examples": 1800, "machine_steps": 14, "examples2": 120}


# ----------------------------------------------------------------------------------------------- sheet-like numbering
# In a real spreadsheet the three tables are stacked (IN, OUT, INTRA), so adding one acquisition pushes every OUT and INTRA
# row one line down.  Results must not depend on that: with `sheetlike`, every run uses row numbers laid out as a fresh sheet
# would have them (order-isomorphic to the generated ones inside each table) and the dump is mapped back to the generated
# ids before any comparison.  `first_row` is drawn near 9|10 and 99|100 as well, where a textual ordering of ids flips.

ROW_KEYS = {"fractions": ("ev", "lot"), "taxable": ("row",), "ins": ("row",), "outs": ("row",), "intras": ("row",)}


def sheet_numbering(rows: List[Dict[str, Any]], first_row: int) -> Dict[int, int]:
    """generated row id -> row number in a sheet holding exactly these rows (artificial negative ids are kept)."""
    mapping: Dict[int, int] = {}
    line = first_row
    for table in ("in", "out", "intra"):
        block = sorted((r["row"] for r in rows if r["table"] == table and r["row"] >= 0))
        for old in block:
            mapping[old] = line
            line += 1
        if block:
            line += 4  # TABLE END, blank line, table keyword, header
    return mapping


def run_numbered(case: Dict[str, Any], rows: List[Dict[str, Any]], first_row: Optional[int], **kw: Any) -> Dict[str, Any]:
    if first_row is None:
        return drive_api.run_case(case, rows=rows, **kw)
    mapping = sheet_numbering(rows, first_row)
    renumbered = []
    for r in rows:
        new = dict(r)
        new["row"] = mapping.get(r["row"], r["row"])
        if "artificial_for" in new:
            new["artificial_for"] = mapping.get(new["artificial_for"], new["artificial_for"])
        renumbered.append(new)
    renumbered.sort(key=lambda r: (r["row"] < 0, r["row"] if r["row"] >= 0 else -r["row"]))
    dump = drive_api.run_case(case, rows=renumbered, **kw)
    if not dump["ok"]:
        return dump
    back = {new: old for old, new in mapping.items()}
    for name, keys in ROW_KEYS.items():
        for entry in dump[name]:
            for key in keys:
                if entry[key] is not None:
                    entry[key] = back.get(entry[key], entry[key])
    return dump


# ----------------------------------------------------------------------------------------------- shared comparison


def prefix_consistency(case: Dict[str, Any], rows: List[Dict[str, Any]], steps: List[int], snapshots: List[Tuple[int, Dict[str, Any]]], dump: Dict[str, Any]) -> Optional[Tuple[str, str]]:
    """Compare the dump of the whole history (rows in append order, steps[i] rows appended at step i) with the snapshot of
    every earlier step k such that *all* rows appended after step k have instants strictly later than T_k."""
    txs = {t.row: t for t in model.make_txs(rows)}
    acc = 0
    for step, (t_k, snap) in enumerate(snapshots):
        acc += steps[step]
        later = [txs[r["row"]] for r in rows[acc:]]
        if not later or not all(t.us > t_k for t in later):
            continue
        now = [f for f in dump["fractions"] if txs[f["ev"]].us <= t_k]
        before = snap["fractions"]
        first = later[0]
        if len(now) != len(before):
            return (
                "earlier_fractions_changed",
                f"after appending rows {[t.row for t in later]} (first: {first.table}/{first.type} at {first.ts}) the events up to step {step} have {len(now)} fractions, they had {len(before)}",
            )
        for a, b in zip(now, before):
            for name in FIELDS:
                if a[name] != b[name]:
                    return (
                        "earlier_fractions_changed",
                        f"after appending rows {[t.row for t in later]} (first: {first.table}/{first.type} at {first.ts}) the fraction "
                        f"(event row {b['ev']}, lot row {b['lot']}) computed at step {step} changed its {name}: {b[name]} -> {a[name]} "
                        f"(now event row {a['ev']}, lot row {a['lot']})",
                    )
        problem = closed_year_consistency(snap, dump, later)
        if problem:
            return problem
    return None


def closed_year_consistency(snap: Dict[str, Any], dump: Dict[str, Any], appended: List[model.Tx]) -> Optional[Tuple[str, str]]:
    first_open = min(t.year for t in appended)
    old = {(y["year"], y["type"], y["long"]): (y["crypto"], y["fiat"], y["basis"], y["gain"]) for y in snap["yearly"] if y["year"] < first_open}
    new = {(y["year"], y["type"], y["long"]): (y["crypto"], y["fiat"], y["basis"], y["gain"]) for y in dump["yearly"] if y["year"] < first_open}
    if old != new:
        diff = sorted(set(old.items()) ^ set(new.items()))[:2]
        return ("closed_year_totals_changed", f"yearly lines of years before {first_open} changed after later transactions were added: {diff}")
    return None


def replay_growth(case: Dict[str, Any]) -> Outcome:
    """Pure re-evaluation of a growth history (rows in append order; 'steps' gives the number of rows per step)."""
    out = Outcome()
    rows = case["rows"]
    steps = case.get("steps") or [1] * len(rows)
    snapshots: List[Tuple[int, Dict[str, Any]]] = []
    done = 0
    for n in steps:
        new_rows = rows[done : done + n]
        done += n
        current = rows[:done]
        dump = run_numbered(case, current, case.get("first_row"))
        if not dump["ok"]:
            out.fail("valid_history_rejected", f"after {done} rows: {dump['error_type']}: {dump['error'][:300]}")
            return out
        problem = prefix_consistency(case, current, steps, snapshots, dump)
        if problem:
            out.fail(*problem)
            return out
        snapshots.append((max(t.us for t in model.make_txs(current)), dump))
    classify_growth(out, case)
    return out


def classify_growth(out: Outcome, case: Dict[str, Any]) -> None:
    txs = model.make_txs(case["rows"])
    out.classes |= history_classes(txs, case["schedule"])
    seen_disposal = False
    lots_before: List[model.Tx] = []
    tempting = False
    for i, t in enumerate(txs):
        if t.is_lot:
            if seen_disposal and lots_before and any(d.is_taxable and not d.is_earn for d in txs[i + 1 :]):
                later_disposals = [d for d in txs[i + 1 :] if d.is_taxable and not d.is_earn]
                method = model.method_for_year(case["schedule"], later_disposals[0].year)
                if any(model.primary_key(method, t) < model.primary_key(method, l) for l in lots_before):
                    tempting = True
            lots_before.append(t)
        elif t.is_taxable:
            seen_disposal = True
    if tempting:
        out.nontrivial = True
        out.classes.add("tempting_lot_after_disposal")


# ----------------------------------------------------------------------------------------------- (a) state machine


def machine(tier: str, record: Callable[[Any, Outcome], None], raise_or_known: Callable[[Any, str, str], None]) -> Any:
    class GrowingHistory(RuleBasedStateMachine):
        def __init__(self) -> None:
            super().__init__()
            self.rows: List[Dict[str, Any]] = []
            self.steps: List[int] = []
            self.snapshots: List[Tuple[int, Dict[str, Any]]] = []
            self.balance = 0
            self.now_us = 0
            self.off = 0
            self.next_row = 3
            self.prices: List[int] = []
            self.case: Dict[str, Any] = {"asset": "B1", "exchanges": ["Kraken", "Coinbase"], "holders": ["Bob"], "country": "us", "allow_negative": True, "rows": self.rows, "steps": self.steps}
            self.pending: List[Dict[str, Any]] = []

        @initialize(
            method=st.sampled_from(model.METHODS),
            second=st.sampled_from(model.METHODS),
            break_year=st.integers(2016, 2022),
            multi=st.booleans(),
            start_year=st.integers(2015, 2019),
            start_sec=st.integers(0, 365 * 86400 - 1),
            off=st.sampled_from(gen.OFFSETS_MIN),
            first_row=st.sampled_from([None, None, 3, 4, 5, 6, 7, 8, 9, 93, 96, 98]),
        )
        def setup(self, method: str, second: str, break_year: int, multi: bool, start_year: int, start_sec: int, off: int, first_row: Optional[int]) -> None:
            self.case["first_row"] = first_row
            self.case["schedule"] = {"1970": method, str(break_year): second} if multi else {"1970": method}
            self.now_us = gen._year_start_us(start_year) + start_sec * gen.US
            self.off = off

        def _advance(self, advance: int, off: int) -> None:
            # advance: 0 = same instant (p ~ 0.25), otherwise an index into a table of gaps
            gaps = [0, 1, 30 * gen.US, 3600 * gen.US, gen.DAY_US, 20 * gen.DAY_US, 200 * gen.DAY_US, 366 * gen.DAY_US]
            if advance > 0:
                prev_day = model.local_date(self.now_us, self.off)
                self.now_us += gaps[advance]
                if model.local_date(self.now_us, off) >= prev_day:
                    self.off = off

        def _append(self, row: Dict[str, Any]) -> None:
            row["row"] = self.next_row
            row["uid"] = f"u{self.next_row}"
            row["ts"] = model.fmt_ts(self.now_us, self.off)
            self.next_row += 1
            self.rows.append(row)
            self.pending.append(row)

        advance_st = st.sampled_from([0, 0, 1, 2, 3, 4, 5, 6, 7])
        off_st = st.sampled_from(gen.OFFSETS_MIN)

        @rule(advance=advance_st, off=off_st, amount=gen.amount_units(), kind=st.sampled_from(["higher", "lower", "same", "random"]), price=st.integers(1, 10**6), ttype=st.sampled_from(["buy", "buy", "gift", "donate"]))
        def append_lot(self, advance: int, off: int, amount: int, kind: str, price: int, ttype: str) -> None:
            self._advance(advance, off)
            cents = price
            if self.prices:
                if kind == "higher":
                    cents = max(self.prices) + price % 1000 + 1
                elif kind == "lower":
                    cents = max(1, min(self.prices) - 1 - price % 50)
                elif kind == "same":
                    cents = self.prices[price % len(self.prices)]
            self.prices.append(cents)
            self._append({"table": "in", "ex": "Kraken", "ho": "Bob", "type": ttype, "price": gen.units_to_str(cents * (gen.UNIT // 100)), "crypto_in": gen.units_to_str(amount)})
            self.balance += amount

        @rule(advance=advance_st, off=off_st, amount=gen.amount_units(), price=st.integers(1, 10**6), ttype=st.sampled_from(model.EARN_TYPES))
        def append_income(self, advance: int, off: int, amount: int, price: int, ttype: str) -> None:
            self._advance(advance, off)
            self.prices.append(price)
            self._append({"table": "in", "ex": "Kraken", "ho": "Bob", "type": ttype, "price": gen.units_to_str(price * (gen.UNIT // 100)), "crypto_in": gen.units_to_str(amount)})
            self.balance += amount

        @precondition(lambda self: self.balance > 0)
        @rule(advance=advance_st, off=off_st, size=st.integers(0, 9), part=st.integers(1, 10**6), price=st.integers(1, 10**6), ttype=st.sampled_from(model.OUT_TYPES))
        def append_disposal(self, advance: int, off: int, size: int, part: int, price: int, ttype: str) -> None:
            self._advance(advance, off)
            take = self._size(size, part)
            row: Dict[str, Any] = {"table": "out", "ex": "Kraken", "ho": "Bob", "type": ttype, "price": gen.units_to_str(price * (gen.UNIT // 100))}
            if ttype == "fee":
                row.update(out="0", fee=gen.units_to_str(take))
            else:
                fee = take // 50 if size % 3 == 0 and take > 50 else 0
                row.update(out=gen.units_to_str(take - fee), fee=gen.units_to_str(fee))
            self._append(row)
            self.balance -= take

        @precondition(lambda self: self.balance > 1)
        @rule(advance=advance_st, off=off_st, size=st.integers(0, 9), part=st.integers(1, 10**6), price=st.integers(1, 10**6), fee_kind=st.integers(0, 2))
        def append_transfer(self, advance: int, off: int, size: int, part: int, price: int, fee_kind: int) -> None:
            self._advance(advance, off)
            take = max(2, self._size(size, part))
            take = min(take, self.balance)
            fee = 0 if fee_kind == 0 else max(1, take // (1000 if fee_kind == 1 else 20))
            fee = min(fee, take - 1) if take > 1 else 0
            self._append(
                {
                    "table": "intra",
                    "from_ex": "Kraken",
                    "from_ho": "Bob",
                    "to_ex": "Kraken" if size % 2 else "Coinbase",
                    "to_ho": "Bob",
                    "price": gen.units_to_str(price * (gen.UNIT // 100)),
                    "sent": gen.units_to_str(take),
                    "received": gen.units_to_str(take - fee),
                }
            )
            self.balance -= fee

        def _size(self, size: int, part: int) -> int:
            if size <= 2:
                return self.balance
            if size <= 4:
                lots = [gen.str_to_units(r["crypto_in"]) for r in self.rows if r["table"] == "in"]
                fitting = [a for a in lots if a <= self.balance]
                return fitting[part % len(fitting)] if fitting else self.balance
            if size == 5:
                return max(1, self.balance // 2)
            if size == 6:
                return 1
            return max(1, self.balance * (part % 1000 + 1) // 1001)

        @invariant()
        def earlier_results_unchanged(self) -> None:
            if not self.pending:
                return
            new_rows, self.pending = self.pending, []
            self.steps.append(len(new_rows))
            dump = run_numbered(self.case, self.rows, self.case.get("first_row"))
            snapshot_case = dict(self.case, rows=[dict(r) for r in self.rows], steps=list(self.steps))
            if not dump["ok"]:
                raise_or_known(snapshot_case, "valid_history_rejected", f"{dump['error_type']}: {dump['error'][:300]}")
                return
            problem = prefix_consistency(self.case, self.rows, self.steps, self.snapshots, dump)
            if problem:
                raise_or_known(snapshot_case, problem[0], problem[1])
            self.snapshots.append((self.now_us, dump))

        def teardown(self) -> None:
            if self.rows and "schedule" in self.case:
                out = Outcome()
                final_case = dict(self.case, rows=[dict(r) for r in self.rows], steps=list(self.steps))
                classify_growth(out, final_case)
                out.classes.add("form_a_growing_history")
                if self.case.get("first_row") is not None:
                    out.classes.add("sheetlike_row_numbers")
                out.metrics["cut_points_checked"] = max(0, len(self.snapshots) - 1)
                record(final_case, out)

    return GrowingHistory


# ----------------------------------------------------------------------------------------------- (b) to-date form


@st.composite
def strategy_case(draw: Any) -> Dict[str, Any]:
    case = draw(engine_case(CFG_B, allow_negative=draw(st.booleans())))
    txs = model.make_txs(case["rows"])
    case["to"] = draw(gen.window_date(txs))
    case["form"] = "b"
    case["first_row"] = draw(st.sampled_from([None, None, 3, 4, 5, 6, 7, 8, 9, 93, 96, 98]))
    return case


def strategy(tier: str) -> Any:
    return strategy_case()


COMPARE_LISTS = ("fractions", "taxable", "yearly", "balances", "ins", "outs", "intras")


def evaluate(case: Dict[str, Any]) -> Outcome:
    if case.get("e2e"):
        return evaluate_e2e(case)
    if case.get("form") != "b":
        return replay_growth(case)
    out = Outcome()
    txs = model.make_txs(case["rows"])
    out.classes |= history_classes(txs, case["schedule"])
    out.classes.add("form_b_to_date")
    if not model.is_date_monotone(txs):
        out.skipped = "non_monotone_dates(R3)"
        return out
    to_d = model.parse_date(case["to"])
    kept = [r for r, t in zip(case["rows"], txs) if t.day <= to_d]
    if not any(t.is_lot and t.day <= to_d for t in txs):
        out.skipped = "no_lot_up_to_the_to_date"
        return out
    cut_after_disposal = any(t.is_taxable and not t.is_earn and t.day <= to_d for t in txs) and any(t.day > to_d for t in txs)
    if cut_after_disposal:
        out.nontrivial = True
        out.classes.add("to_date_cuts_after_disposal")
    if case.get("first_row") is not None:
        out.classes.add("sheetlike_row_numbers")
    full = run_numbered(case, case["rows"], case.get("first_row"), from_date="", to_date=case["to"])
    trunc = run_numbered(case, kept, case.get("first_row"), from_date="", to_date="")
    if full["ok"] != trunc["ok"]:
        out.fail("to_date_vs_truncation_verdict", f"run with to-date {case['to']}: ok={full['ok']} ({full.get('error', '')[:150]}); run on truncated history: ok={trunc['ok']} ({trunc.get('error', '')[:150]})")
        return out
    if not full["ok"]:
        out.skipped = "both_rejected"
        return out
    for name in COMPARE_LISTS:
        if full[name] != trunc[name]:
            a, b = full[name], trunc[name]
            idx = next((i for i, (x, y) in enumerate(zip(a, b)) if x != y), min(len(a), len(b)))
            out.fail(
                f"to_date_differs_from_truncation_{name}",
                f"{name}: with to-date {case['to']} entry {idx} = {a[idx] if idx < len(a) else None}; on the history truncated at that date = {b[idx] if idx < len(b) else None} "
                f"(lengths {len(a)} vs {len(b)})",
            )
            return out
    if full["ppu"] != trunc["ppu"]:
        out.fail("to_date_differs_from_truncation_average_price", f"average price {full['ppu']} vs {trunc['ppu']}")
    return out


# ----------------------------------------------------------------------------------------------- (c) end-to-end tier
E2E_HIST = gen.GenCfg(min_steps=5, max_steps=14, max_exchanges=2, max_holders=2, long_gaps=True, tie_prob=0.2, subsecond_weight=4)
E2E_REL = Fraction(1, 10**12)


@st.composite
def strategy2_case(draw: Any) -> Dict[str, Any]:
    """Files through the console entry point: the whole input with -t T against the input truncated at T (rows dated after T
    deleted from the spreadsheet, which also renumbers the rows below them) without -t."""
    case = draw(e2e.file_strategy(E2E_HIST, countries=("us", "us", "us", "generic", "ie"), to_dates=True, schedule_weight=2, flavours=("mixed", "mixed", "mixed", "same_second_trades")))
    if not case.get("to"):
        filegen.stamp_rows(case)
        txs = [t for rows in filegen.case_post_rows(case).values() for t in model.make_txs(rows)]
        case["to"] = draw(gen.window_date(txs))
    case["from"] = None
    if draw(st.booleans()):
        # the other form of the property: cut at an *instant* (rows later than it deleted from the spreadsheet, no -t at all)
        filegen.stamp_rows(case)
        instants = sorted({t.us for rows in filegen.case_post_rows(case).values() for t in model.make_txs(rows)})
        if len(instants) >= 2:
            case["cut_us"] = draw(st.sampled_from(instants[:-1]))
            case["to"] = None
    return case


def strategy2(tier: str) -> Any:
    return strategy2_case()


def minimize(case: Dict[str, Any], clause: str) -> Dict[str, Any]:
    return e2e.minimize(case, clause, evaluate) if case.get("e2e") else case


def _by_uid(dump: Dict[str, Any], rows: List[Dict[str, Any]]) -> Dict[str, Any]:
    ident = {t.row: (t.table, t.uid) for t in model.make_txs(rows)}
    fractions = [(ident[f["ev"]], ident[f["lot"]] if f["lot"] is not None else None, f["amount"], f["proceeds"], f["basis"], f["gain"], f["long"]) for f in dump["fractions"]]
    yearly = sorted((y["year"], y["type"], y["long"], y["crypto"], y["fiat"], y["basis"], y["gain"]) for y in dump["yearly"])
    balances = sorted((b["ex"], b["ho"], b["acquired"], b["sent"], b["received"], b["final"]) for b in dump["balances"])
    return {"fractions": fractions, "yearly": yearly, "balances": balances}


def _close(a: Any, b: Any) -> bool:
    if isinstance(a, Fraction) and isinstance(b, Fraction):
        return abs(a - b) <= E2E_REL * max(abs(a), abs(b), Fraction(1, 10**9))
    if isinstance(a, tuple) and isinstance(b, tuple):
        return len(a) == len(b) and all(_close(x, y) for x, y in zip(a, b))
    return a == b


def evaluate_e2e(case: Dict[str, Any]) -> Outcome:
    import copy

    out = Outcome()
    out.classes.add("e2e_cli")
    out.classes.add(f"e2e_{case['country']}")
    if case.get("cut_us") is not None:
        return evaluate_e2e_instant_cut(case)
    to_d = model.parse_date(case.get("to"))
    if to_d is None:
        out.skipped = "e2e_no_to_date"
        return out
    folder = cli_common.work_dir("c09e")
    try:
        res_full, dumps_full, rows_full = e2e.run(case, folder + "/full")
        truncated = copy.deepcopy(case)
        truncated["to"] = None
        for asset in list(truncated["assets"]):
            spec = truncated["assets"][asset]
            spec["tables"] = [[table, [r for r in rows if model.make_tx(dict(r, row=1)).day <= to_d]] for table, rows in spec["tables"]]
            if not any(table == "in" and rows for table, rows in spec["tables"]):
                del truncated["assets"][asset]
        if not truncated["assets"]:
            out.skipped = "e2e_nothing_before_the_to_date"
            return out
        if any(any(model.make_tx(dict(r, row=1)).day > to_d for _, rows in spec["tables"] for r in rows) for spec in case["assets"].values()):
            out.nontrivial = True
            out.classes.add("e2e_to_date_cuts_history")
        if case.get("asset_opt") and case["asset_opt"] not in truncated["assets"]:
            out.skipped = "e2e_selected_asset_has_nothing_before_the_to_date"
            return out
        res_trunc, dumps_trunc, rows_trunc = e2e.run(truncated, folder + "/trunc")
        if dumps_full is None or dumps_trunc is None:
            if (dumps_full is None) != (dumps_trunc is None) and len(truncated["assets"]) == len(case["assets"]):
                out.fail("to_date_vs_truncation_verdict", f"[end-to-end: rp2_{case['country']}] -t {case['to']} on the whole input exits {res_full.rc}, the input truncated at that date exits {res_trunc.rc}")
            else:
                out.skipped = "e2e_run_failed(C16)"
            return out
        for asset in sorted(dumps_trunc):
            if asset not in dumps_full or not dumps_full[asset]["ok"] or not dumps_trunc[asset]["ok"]:
                out.skipped = "e2e_report_not_relatable(C13)"
                return out
            if not model.is_date_monotone(model.make_txs(rows_full[asset])):
                out.skipped = "non_monotone_dates(R3)"
                return out
            a = _by_uid(dumps_full[asset], rows_full[asset])
            b = _by_uid(dumps_trunc[asset], rows_trunc[asset])
            for name in ("fractions", "yearly", "balances"):
                if len(a[name]) != len(b[name]) or not all(_close(x, y) for x, y in zip(a[name], b[name])):
                    idx = next((i for i, (x, y) in enumerate(zip(a[name], b[name])) if not _close(x, y)), min(len(a[name]), len(b[name])))
                    out.fail(
                        f"to_date_differs_from_truncation_{name}",
                        f"[end-to-end: rp2_{case['country']}, asset {asset}] {name}: with -t {case['to']} entry {idx} = {a[name][idx] if idx < len(a[name]) else None}; "
                        f"on the spreadsheet truncated at that date = {b[name][idx] if idx < len(b[name]) else None} (lengths {len(a[name])} vs {len(b[name])})",
                    )
                    return out
    finally:
        cli_common.cleanup(folder)
    return out


def evaluate_e2e_instant_cut(case: Dict[str, Any]) -> Outcome:
    """Whole spreadsheet vs the spreadsheet without the rows later than an instant T (between two distinct instants): every
    fraction of an event at or before T must be the same - pairing, amounts, proceeds, basis, gain, LONG/SHORT."""
    import copy

    out = Outcome()
    out.classes.add("e2e_cli")
    out.classes.add("e2e_instant_cut")
    cut = int(case["cut_us"])
    folder = cli_common.work_dir("c09i")
    try:
        res_full, dumps_full, rows_full = e2e.run(case, folder + "/full")
        prefix = copy.deepcopy(case)
        for asset in list(prefix["assets"]):
            spec = prefix["assets"][asset]
            spec["tables"] = [[table, [r for r in rows if model.make_tx(dict(r, row=1)).us <= cut]] for table, rows in spec["tables"]]
            if not any(table == "in" and rows for table, rows in spec["tables"]):
                del prefix["assets"][asset]
        if not prefix["assets"] or (case.get("asset_opt") and case["asset_opt"] not in prefix["assets"]):
            out.skipped = "e2e_nothing_before_the_cut"
            return out
        res_pre, dumps_pre, rows_pre = e2e.run(prefix, folder + "/prefix")
        if dumps_pre is None:
            out.skipped = "e2e_run_failed(C16)"
            return out
        if dumps_full is None:
            out.fail("later_rows_change_outcome", f"[end-to-end: rp2_{case['country']}] the spreadsheet cut at {model.fmt_ts(cut, 0)} runs, the whole spreadsheet exits {res_full.rc}: {cli_common.crash_bucket(res_full.text)}")
            return out
        for asset in sorted(dumps_pre):
            if asset not in dumps_full or not dumps_full[asset]["ok"] or not dumps_pre[asset]["ok"]:
                out.skipped = "e2e_report_not_relatable(C13)"
                return out
            txs_full = {t.row: t for t in model.make_txs(rows_full[asset])}
            full_dump = dict(dumps_full[asset], fractions=[f for f in dumps_full[asset]["fractions"] if txs_full[f["ev"]].us <= cut])
            a = _by_uid(full_dump, rows_full[asset])["fractions"]
            b = _by_uid(dumps_pre[asset], rows_pre[asset])["fractions"]
            if len(a) < len(dumps_full[asset]["fractions"]):
                out.nontrivial = True
            if len(a) != len(b) or not all(_close(x, y) for x, y in zip(a, b)):
                idx = next((i for i, (x, y) in enumerate(zip(a, b)) if not _close(x, y)), min(len(a), len(b)))
                out.fail(
                    "earlier_fractions_changed",
                    f"[end-to-end: rp2_{case['country']}, asset {asset}] fractions of the events up to {model.fmt_ts(cut, 0)}: entry {idx} is {a[idx] if idx < len(a) else None} on the whole "
                    f"spreadsheet and {b[idx] if idx < len(b) else None} on the spreadsheet without the later rows (lengths {len(a)} vs {len(b)})",
                )
                return out
    finally:
        cli_common.cleanup(folder)
    return out


def replay_evaluate(case: Dict[str, Any]) -> Outcome:
    return evaluate(case)
