"""C02 - every disposal is fully covered by earlier lots; no lot is overspent; clean failure when uncovered.

Oracle (from the input rows only):
  * verdict: with A(t)/D(t) = cumulative acquired/disposed over instants <= t, the run must raise RP2ValueError
    iff there is an instant t with D(t) > A(t) (order-independent inside an instant: same-instant lots are
    available to same-instant disposals);
  * on success: every fraction amount > 0; per event the amounts sum exactly to the amount leaving the holder
    (amount + crypto fee; the fee only for transfers); per lot the sum never exceeds the amount acquired; no
    lot is later than its event; a history whose disposals add up to everything acquired leaves every lot
    exactly exhausted.
"""
from __future__ import annotations

from fractions import Fraction
from typing import Any, Dict, List

from hypothesis import strategies as st

from .. import drive_api, e2e, gen, model
from ..engine_common import engine_case, history_classes
from ..runner import Outcome

ID = "C02"
LEVEL = "exploration"
RULE = (
    "C01's constructed histories x methods x schedules, plus variants drawn by Hypothesis: one disposal enlarged beyond "
    "what is held at its instant by {1e-11, 1e-9, 1, 10x} (optionally refilled later = transient over-spend), and "
    "extension by a final disposal of exactly the whole remaining balance at a later or at the same instant. Oracle: "
    "three-part validity predicate over the fraction list + iff-verdict on RP2ValueError computed from the rows. "
    "Non-trivial = a disposal split over >= 2 lots, or an over-spend, or a full liquidation; distinct by case hash."
)
ASSUMPTIONS = [
    "allow_negative_balances=True so that the matcher's own guard (not the per-account balance guard, C08) is observed",
    "amounts <= 11 decimals (R1); optional crypto_out_with_fee consistent with amount + fee when present (R4)",
]
RULE += e2e.RULE_SUFFIX

CFG = gen.GenCfg(min_steps=2, max_steps=14, shared_uid_prob=0.05)
VARIANTS = ["plain", "plain", "overspend", "overspend_refill", "liquidate_later", "liquidate_tie"]


def budget(tier: str) -> Dict[str, Any]:
    return {"shards": 16, "examples": 1500 if tier == "quick" else 25000, "examples2": 8 if tier == "quick" else 150}


def _slack_at(txs: List[model.Tx], us: int) -> Fraction:
    total = Fraction(0)
    for t in txs:
        if t.us <= us:
            if t.table == "in":
                total += t.crypto_in
            elif t.is_taxable:
                total -= t.leaving
    return total


@st.composite
def strategy_case(draw: Any) -> Dict[str, Any]:
    case = draw(engine_case(CFG))
    variant = draw(st.sampled_from(VARIANTS))
    rows = case["rows"]
    txs = model.make_txs(rows)
    case["variant"] = "plain"
    if variant.startswith("overspend"):
        targets = [i for i, t in enumerate(txs) if t.row >= 0 and (t.table == "out" or (t.table == "intra" and t.sent > t.received))]
        if targets:
            i = draw(st.sampled_from(targets))
            target = txs[i]
            slack = _slack_at(txs, target.us)
            delta = draw(st.sampled_from(["0.00000000001", "0.000000001", "1", "x10"]))
            extra = slack + (model.F(delta) if delta != "x10" else target.leaving * 10)
            row = dict(rows[i])
            if target.table == "out":
                field = "fee" if target.type == "fee" else "out"
                row[field] = gen._frac_to_str(model.F(row[field]) + extra)
                if "out_with_fee" in row:
                    row["out_with_fee"] = gen._frac_to_str(model.F(row["out"]) + model.F(row["fee"]))
            else:
                row["sent"] = gen._frac_to_str(model.F(row["sent"]) + extra)
            rows[i] = row
            case["variant"] = variant
            if variant == "overspend_refill":
                last = max(t.us for t in txs)
                acc = (rows[0].get("ex") or rows[0].get("from_ex"), rows[0].get("ho") or rows[0].get("from_ho"))
                rows.append(
                    {
                        "table": "in",
                        "row": max(t.row for t in txs) + 1,
                        "ts": model.fmt_ts(last + draw(st.integers(1, 400)) * gen.DAY_US, 0),
                        "ex": acc[0],
                        "ho": acc[1],
                        "type": "buy",
                        "price": "10",
                        "crypto_in": gen._frac_to_str(extra + 1000),
                        "uid": "refill",
                    }
                )
    elif variant.startswith("liquidate"):
        remaining = _slack_at(txs, max(t.us for t in txs))
        if remaining > 0:
            last = max(txs, key=lambda t: t.us)
            us = last.us if variant == "liquidate_tie" else last.us + draw(st.integers(1, 500 * gen.DAY_US))
            acc = (rows[0].get("ex") or rows[0].get("from_ex"), rows[0].get("ho") or rows[0].get("from_ho"))
            rows.append(
                {
                    "table": "out",
                    "row": max(t.row for t in txs) + 1,
                    "ts": model.fmt_ts(us, last.off),
                    "ex": acc[0],
                    "ho": acc[1],
                    "type": draw(st.sampled_from(["sell", "gift", "lost"])),
                    "price": "12.5",
                    "out": gen._frac_to_str(remaining),
                    "fee": "0",
                    "uid": "liquidate",
                }
            )
            case["variant"] = variant
    return case


def strategy(tier: str) -> Any:
    return strategy_case()


def coverage_violations(out: Outcome, txs: List[model.Tx], fractions: List[Dict[str, Any]]) -> None:
    by_row = {t.row: t for t in txs}
    per_event: Dict[int, Fraction] = {}
    per_event_n: Dict[int, int] = {}
    per_lot: Dict[int, Fraction] = {}
    for idx, fraction in enumerate(fractions):
        event = by_row.get(fraction["ev"])
        if event is None:
            out.fail("unknown_event", f"fraction {idx}: event row {fraction['ev']} not in the input")
            return
        if fraction["amount"] <= 0:
            out.fail("non_positive_fraction", f"fraction {idx} (event row {event.row}) has amount {fraction['amount']}")
            return
        if fraction["lot"] is None:
            continue
        lot = by_row.get(fraction["lot"])
        if lot is None or not lot.is_lot:
            out.fail("unknown_lot", f"fraction {idx}: lot row {fraction['lot']} is not an acquisition of the input")
            return
        if lot.us > event.us:
            out.fail("lot_after_event", f"fraction {idx}: lot row {lot.row} ({lot.ts}) is later than event row {event.row} ({event.ts})")
            return
        per_event[event.row] = per_event.get(event.row, Fraction(0)) + fraction["amount"]
        per_event_n[event.row] = per_event_n.get(event.row, 0) + 1
        per_lot[lot.row] = per_lot.get(lot.row, Fraction(0)) + fraction["amount"]
        if per_lot[lot.row] > lot.crypto_in:
            out.fail("lot_overspent", f"lot row {lot.row} acquired {lot.crypto_in} but fractions up to #{idx} take {per_lot[lot.row]}")
            return
    disposals = [t for t in txs if t.is_taxable and not t.is_earn]
    for event in disposals:
        got = per_event.get(event.row, Fraction(0))
        if got != event.leaving:
            out.fail(
                "event_not_fully_covered",
                f"event row {event.row} ({event.table}/{event.type}) lets {event.leaving} leave the holder but its lot fractions sum to {got}",
            )
            return
    if any(n >= 2 for n in per_event_n.values()):
        out.nontrivial = True
        out.classes.add("disposal_split_over_lots")
    total_in = sum((t.crypto_in for t in txs if t.is_lot), Fraction(0))
    total_out = sum((t.leaving for t in disposals), Fraction(0))
    if total_in == total_out and disposals:
        out.nontrivial = True
        out.classes.add("full_liquidation")
        for lot in (t for t in txs if t.is_lot):
            if per_lot.get(lot.row, Fraction(0)) != lot.crypto_in:
                out.fail("lot_not_exhausted_after_liquidation", f"everything was disposed of, yet lot row {lot.row} ({lot.crypto_in}) has {per_lot.get(lot.row, 0)} consumed")
                return


E2E_HIST = gen.GenCfg(min_steps=4, max_steps=14, max_exchanges=2, max_holders=2, tie_prob=0.25, bulk_prob=0.03)


def strategy2(tier: str) -> Any:
    """End-to-end tier (rp2v/e2e.py): multi-asset files through the console entry point; the same predicate is applied to
    figures read back from rp2_full_report.ods and related to the generated rows by unique id."""
    return e2e.file_strategy(E2E_HIST, countries=("us", "us", "generic", "ie"), flavours=("mixed", "mixed", "fully_sold", "same_second_trades", "tied_fills"))


def minimize(case: Dict[str, Any], clause: str) -> Dict[str, Any]:
    return e2e.minimize(case, clause, evaluate) if case.get("e2e") else case


def evaluate(case: Dict[str, Any]) -> Outcome:
    if case.get("e2e"):
        return e2e.evaluate_assets(case, "c02e", lambda out, asset, txs, dump, schedule: coverage_violations(out, txs, dump["fractions"]), failure_is_violation=("accounting_engine.py", "abstract_accounting_method.py", "tax_engine.py", "gain_loss.py", "gain_loss_set.py", "plugin/accounting_method/"))
    out = Outcome()
    txs = model.make_txs(case["rows"])
    out.classes |= history_classes(txs, case["schedule"])
    out.classes.add(f"variant_{case.get('variant', 'plain')}")
    over = model.overspend_somewhere(txs)
    dump = drive_api.run_case(case)
    if over:
        out.nontrivial = True
        final = _slack_at(txs, max(t.us for t in txs))
        out.classes.add("overspend_transient" if final >= 0 else "overspend_final")
        if dump["ok"]:
            out.fail("overspend_not_rejected", "at some instant the disposals exceed everything acquired so far, yet compute_tax produced figures")
        elif dump["error_type"] != "RP2ValueError":
            out.fail("overspend_wrong_error", f"expected RP2ValueError, got {dump['error_type']}: {dump['error'][:200]}")
        return out
    if not dump["ok"]:
        out.fail("valid_history_rejected", f"no instant has disposals exceeding acquisitions, yet the run failed with {dump['error_type']}: {dump['error'][:300]}")
        return out
    coverage_violations(out, txs, dump["fractions"])
    return out
