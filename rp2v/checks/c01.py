"""C01 - disposals consume lots in the order the accounting method prescribes.

Oracle: validity predicate replayed over the returned fraction list with a `remaining[lot]` map built from
the *input rows*: each fraction's lot must be among the lots acquired at or before the event that still
have unconsumed balance, and must have the best *primary* ranking key of the method in force for the
event's own local year (ties in the primary key are not decided by the statement -> any tied lot passes).
"""
from __future__ import annotations

from fractions import Fraction
from typing import Any, Dict, List

from .. import drive_api, e2e, gen, model
from ..engine_common import engine_case, history_classes
from ..runner import Outcome

ID = "C01"
LEVEL = "exploration"
RULE = (
    "Hypothesis composite strategy constructing valid single-asset histories of 2-14 transactions (all 14 types, "
    "transfers with/without fee, equal instants p=0.25, mixed UTC offsets, year/leap/365-day attractors, disposals sized "
    "from actual holdings) x {fifo,lifo,hifo,lofo} x year->method schedules; 16 shards seeded from VERIF_SEED. "
    "Oracle: replay of the returned (event, lot, amount) list against remaining-lot balances from the input rows with "
    "the method's primary ranking key. Non-trivial = at some disposal fraction >= 2 candidate lots with different "
    "primary keys exist; distinct = distinct canonical case JSON (64-bit hash)."
)
ASSUMPTIONS = [
    "amounts <= 11 decimals (R1); ties in the primary ranking key are not judged (R2)",
    "allow_negative_balances=True so that only the matcher (not the per-account balance guard) is observed",
    "a valid history that rp2 rejects is C02's subject and is counted here as skipped",
]
RULE += e2e.RULE_SUFFIX

CFG = gen.GenCfg(min_steps=2, max_steps=14)


E2E_HIST = gen.GenCfg(min_steps=4, max_steps=14, max_exchanges=2, max_holders=2, tie_prob=0.2, bulk_prob=0.03)


def budget(tier: str) -> Dict[str, Any]:
    return {"shards": 16, "examples": 1500 if tier == "quick" else 25000, "examples2": 8 if tier == "quick" else 150}


def strategy(tier: str) -> Any:
    return engine_case(CFG)


def strategy2(tier: str) -> Any:
    """End-to-end tier: multi-asset files through the console entry point, predicate applied to the report's detail rows."""
    return e2e.file_strategy(E2E_HIST, countries=("us", "us", "us", "generic"), flavours=("mixed", "mixed", "mixed", "same_second_trades", "tied_fills"))


def lot_order_violations(out: Outcome, txs: List[model.Tx], schedule: Dict[str, str], fractions: List[Dict[str, Any]]) -> None:
    """The C01 predicate; also sets out.nontrivial and some classes."""
    by_row = {t.row: t for t in txs}
    lots = [t for t in txs if t.is_lot]
    remaining: Dict[int, Fraction] = {t.row: t.crypto_in for t in lots}
    touched_partial: set = set()
    last_event_for_lot: Dict[int, int] = {}
    methods_used: List[str] = []
    seen_income = False
    for idx, fraction in enumerate(fractions):
        event = by_row.get(fraction["ev"])
        if event is None:
            out.fail("unknown_event", f"fraction {idx} refers to event row {fraction['ev']} that is not in the input")
            return
        if fraction["lot"] is None:
            seen_income = True
            continue
        lot = by_row.get(fraction["lot"])
        if lot is None or not lot.is_lot:
            out.fail("unknown_lot", f"fraction {idx} refers to lot row {fraction['lot']} that is not an acquisition of the input")
            return
        method = model.method_for_year(schedule, event.year)
        if not methods_used or methods_used[-1] != method:
            methods_used.append(method)
        candidates = [l for l in lots if l.us <= event.us and remaining[l.row] > 0]
        keys = {model.primary_key(method, l) for l in candidates}
        if len(keys) >= 2:
            out.nontrivial = True
            if seen_income:
                out.classes.add("income_before_ranked_disposal")
        if lot.us > event.us:
            out.fail("lot_after_event", f"fraction {idx}: lot row {lot.row} ({lot.ts}) acquired after event row {event.row} ({event.ts})")
            return
        if remaining[lot.row] <= 0:
            out.fail("lot_already_consumed", f"fraction {idx}: lot row {lot.row} has no unconsumed balance left (event row {event.row}, method {method})")
            return
        best = min(keys)
        if model.primary_key(method, lot) != best:
            better = [l.row for l in candidates if model.primary_key(method, l) == best]
            out.fail(
                "lot_rank",
                f"fraction {idx}: event row {event.row} ({event.ts}, year {event.year}, method {method}) took lot row {lot.row} "
                f"(instant {lot.ts}, price {lot.price}) while better-ranked lot row(s) {better} still had unconsumed balance "
                f"{[str(remaining[r]) for r in better]}",
            )
            return
        if lot.row in touched_partial and last_event_for_lot.get(lot.row) != event.row:
            out.classes.add("partial_lot_resumed_by_later_event")
        remaining[lot.row] -= fraction["amount"]
        if remaining[lot.row] > 0:
            touched_partial.add(lot.row)
        last_event_for_lot[lot.row] = event.row
    if len(methods_used) > 1:
        out.classes.add("method_change_between_disposals")


def evaluate(case: Dict[str, Any]) -> Outcome:
    if case.get("e2e"):
        return e2e.evaluate_assets(case, "c01e", lambda out, asset, txs, dump, schedule: lot_order_violations(out, txs, schedule, dump["fractions"]))
    out = Outcome()
    txs = model.make_txs(case["rows"])
    out.classes |= history_classes(txs, case["schedule"])
    dump = drive_api.run_case(case)
    if not dump["ok"]:
        if model.overspend_somewhere(txs):
            out.skipped = "overspending_history"
        else:
            out.skipped = "valid_history_rejected(C02)"
        return out
    lot_order_violations(out, txs, case["schedule"], dump["fractions"])
    return out


def minimize(case: Dict[str, Any], clause: str) -> Dict[str, Any]:
    return e2e.minimize(case, clause, evaluate) if case.get("e2e") else case
