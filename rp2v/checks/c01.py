"""C01 - disposals consume lots in the order the accounting method prescribes.

Oracle: validity predicate replayed over the returned fraction list with a `remaining[lot]` map built from
the *input rows*: each fraction's lot must be among the lots acquired at or before the event that still
have unconsumed balance, and must have the best *primary* ranking key of the method in force for the
event's own local year (ties in the primary key are not decided by the statement -> any tied lot passes).
"""
from __future__ import annotations

from fractions import Fraction
from typing import Any, Dict, List

from hypothesis import strategies as st

from .. import drive_api, e2e, gen, model
from ..engine_common import engine_case, history_classes
from ..runner import Outcome

ID = "C01"
LEVEL = "exploration"
RULE = (
    "Hypothesis composite strategy constructing valid single-asset histories of 2-14 transactions (all 14 types, "
    "transfers with/without fee, equal instants p=0.25, mixed UTC offsets, year/leap/365-day attractors, disposals sized "
    "from actual holdings) x {fifo,lifo,hifo,lofo} x year->method schedules; one case in sixty is a 'drip' history (2-4 sizeable "
    "lots, then 70-160 small disposals a few hours or days apart); 16 shards seeded from VERIF_SEED. "
    "Oracle: replay of the returned (event, lot, amount) list against remaining-lot balances from the input rows with "
    "the method's primary ranking key. Non-trivial = at some disposal fraction >= 2 candidate lots with different "
    "primary keys exist; distinct = distinct canonical case JSON (64-bit hash)."
)
ASSUMPTIONS = [
    "amounts <= 11 decimals (R1); ties in the primary ranking key are not judged (R2)",
    "allow_negative_balances=True so that only the matcher (not the per-account balance guard) is observed",
    "a valid history that rp2 rejects is C02's subject and is counted here as skipped",
]
RULE += e2e.RULE_SUFFIX

CFG = gen.GenCfg(min_steps=2, max_steps=14)


E2E_HIST = gen.GenCfg(min_steps=4, max_steps=14, max_exchanges=2, max_holders=2, tie_prob=0.2, bulk_prob=0.03)


def budget(tier: str) -> Dict[str, Any]:
    return {"shards": 16, "examples": 1500 if tier == "quick" else 25000, "examples2": 8 if tier == "quick" else 150}


@st.composite
def drip_case(draw: Any) -> Dict[str, Any]:
    """Dollar-cost averaging in reverse: two to four sizeable lots at different prices, then 70-160 small disposals, one every
    few hours or days, none of which exhausts a lot.  Whatever the matcher keeps between disposals (heaps, indexes, caches)
    is exercised far beyond the dozen steps of the step-by-step generator, with few random choices."""
    acc = (gen.EXCHANGE_NAMES[0], gen.HOLDER_NAMES[0])
    us = gen._year_start_us(draw(st.integers(2016, 2020))) + draw(st.integers(0, 300)) * gen.DAY_US + draw(st.integers(0, 86399)) * gen.US
    rows: List[Dict[str, Any]] = []
    prices = draw(st.lists(st.integers(1, 900), min_size=2, max_size=4, unique=True))
    for price in prices:
        rows.append({"table": "in", "row": 3 + len(rows), "ts": model.fmt_ts(us, 0), "ex": acc[0], "ho": acc[1], "type": draw(st.sampled_from(["buy", "buy", "interest"])), "price": gen.units_to_str(price * gen.UNIT), "crypto_in": gen.units_to_str(draw(st.integers(10, 30)) * gen.UNIT), "uid": f"l{len(rows)}"})
        us += draw(st.integers(1, 50)) * gen.DAY_US
    n = draw(st.integers(70, 160))
    spacing = draw(st.sampled_from([3600 * gen.US, 7 * 3600 * gen.US, gen.DAY_US, 2 * gen.DAY_US]))
    piece = draw(st.sampled_from([gen.UNIT // 1000, gen.UNIT // 100, 3 * gen.UNIT // 100]))
    kinds = draw(st.sampled_from([("sell",), ("sell", "fee"), ("sell", "gift", "lost")]))
    for i in range(n):
        us += spacing
        kind = kinds[i % len(kinds)]
        amount = piece * (1 + i % 3)
        row = {"table": "out", "row": 3 + len(rows), "ts": model.fmt_ts(us, 0), "ex": acc[0], "ho": acc[1], "type": kind, "price": gen.units_to_str((50 + i % 11) * gen.UNIT), "out": gen.units_to_str(amount), "fee": "0", "uid": f"d{i}"}
        if kind == "fee":
            row["out"], row["fee"] = "0", gen.units_to_str(amount)
        rows.append(row)
    case = {"asset": "B1", "exchanges": [acc[0]], "holders": [acc[1]], "rows": rows, "sub_generator": "drip"}
    case["schedule"] = draw(gen.schedule(model.make_txs(rows), methods=model.METHODS, multi_prob=0.3))
    case["country"] = "us"
    case["allow_negative"] = True
    return case


@st.composite
def strategy_case(draw: Any) -> Dict[str, Any]:
    if draw(st.integers(0, 59)) == 0:
        return draw(drip_case())
    return draw(engine_case(CFG))


def strategy(tier: str) -> Any:
    return strategy_case()


def strategy2(tier: str) -> Any:
    """End-to-end tier: multi-asset files through the console entry point, predicate applied to the report's detail rows."""
    return e2e.file_strategy(E2E_HIST, countries=("us", "us", "us", "generic"), flavours=("mixed", "mixed", "mixed", "same_second_trades", "tied_fills"))


def lot_order_violations(out: Outcome, txs: List[model.Tx], schedule: Dict[str, str], fractions: List[Dict[str, Any]]) -> None:
    """The C01 predicate; also sets out.nontrivial and some classes."""
    by_row = {t.row: t for t in txs}
    lots = [t for t in txs if t.is_lot]
    remaining: Dict[int, Fraction] = {t.row: t.crypto_in for t in lots}
    touched_partial: set = set()
    last_event_for_lot: Dict[int, int] = {}
    methods_used: List[str] = []
    seen_income = False
    for idx, fraction in enumerate(fractions):
        event = by_row.get(fraction["ev"])
        if event is None:
            out.fail("unknown_event", f"fraction {idx} refers to event row {fraction['ev']} that is not in the input")
            return
        if fraction["lot"] is None:
            seen_income = True
            continue
        lot = by_row.get(fraction["lot"])
        if lot is None or not lot.is_lot:
            out.fail("unknown_lot", f"fraction {idx} refers to lot row {fraction['lot']} that is not an acquisition of the input")
            return
        method = model.method_for_year(schedule, event.year)
        if not methods_used or methods_used[-1] != method:
            methods_used.append(method)
        candidates = [l for l in lots if l.us <= event.us and remaining[l.row] > 0]
        keys = {model.primary_key(method, l) for l in candidates}
        if len(keys) >= 2:
            out.nontrivial = True
            if seen_income:
                out.classes.add("income_before_ranked_disposal")
        if lot.us > event.us:
            out.fail("lot_after_event", f"fraction {idx}: lot row {lot.row} ({lot.ts}) acquired after event row {event.row} ({event.ts})")
            return
        if remaining[lot.row] <= 0:
            out.fail("lot_already_consumed", f"fraction {idx}: lot row {lot.row} has no unconsumed balance left (event row {event.row}, method {method})")
            return
        best = min(keys)
        if model.primary_key(method, lot) != best:
            better = [l.row for l in candidates if model.primary_key(method, l) == best]
            out.fail(
                "lot_rank",
                f"fraction {idx}: event row {event.row} ({event.ts}, year {event.year}, method {method}) took lot row {lot.row} "
                f"(instant {lot.ts}, price {lot.price}) while better-ranked lot row(s) {better} still had unconsumed balance "
                f"{[str(remaining[r]) for r in better]}",
            )
            return
        if lot.row in touched_partial and last_event_for_lot.get(lot.row) != event.row:
            out.classes.add("partial_lot_resumed_by_later_event")
        remaining[lot.row] -= fraction["amount"]
        if remaining[lot.row] > 0:
            touched_partial.add(lot.row)
        last_event_for_lot[lot.row] = event.row
    if len(methods_used) > 1:
        out.classes.add("method_change_between_disposals")


def evaluate(case: Dict[str, Any]) -> Outcome:
    if case.get("e2e"):
        return e2e.evaluate_assets(case, "c01e", lambda out, asset, txs, dump, schedule: lot_order_violations(out, txs, schedule, dump["fractions"]))
    out = Outcome()
    txs = model.make_txs(case["rows"])
    out.classes |= history_classes(txs, case["schedule"])
    if case.get("sub_generator") == "drip":
        out.classes.add("drip_70_to_160_small_disposals")
    dump = drive_api.run_case(case)
    if not dump["ok"]:
        if model.overspend_somewhere(txs):
            out.skipped = "overspending_history"
        else:
            out.skipped = "valid_history_rejected(C02)"
        return out
    lot_order_violations(out, txs, case["schedule"], dump["fractions"])
    return out


def minimize(case: Dict[str, Any], clause: str) -> Dict[str, Any]:
    return e2e.minimize(case, clause, evaluate) if case.get("e2e") else case
