"""C12 - malformed or contradictory input is rejected, never silently processed (fault injection).

Base = a valid multi-asset input from C16's generator; exactly one fault from a documented catalogue is injected at a
generated applicable position (sheet, table, data row, field | config section | command-line option).
Oracle: exit status != 0 AND an error text on stderr/stdout AND no *.ods in the output directory.
"""
from __future__ import annotations

import copy
import json
import os
from typing import Any, Dict, List, Optional, Tuple

from hypothesis import strategies as st

from .. import cli, cli_common, filegen, files, gen, model
from ..runner import Outcome, case_hash

ID = "C12"
LEVEL = "fault_enumeration"
RULE = (
    "Valid base inputs (1-3 assets, default column layout, flavours mixed / buy-only / income-only / transfer-heavy) + exactly "
    "one fault - class = hash of the drawn base input over the applicable classes (close to uniform), classes applicable at several positions counting double; position drawn - from a catalogue of ~115 fault classes grounded in C12's statement (unknown asset/exchange/holder - a third of them a configured name padded with white space -, other asset, timestamp without zone "
    "or unparseable, type not allowed in its table, zero/negative amounts and fees, zero price where required (also on rows with exchange-supplied fiat values), "
    "received > sent, both fees, text / numeric-looking text / empty cell in a mandatory numeric field, row shorter than "
    "the mapped columns, broken table structure in 12 variants, config faults in 17 variants, CLI faults in 10 variants), "
    "injected at a generated applicable (sheet, table, data row, field) position; one real CLI run per case. Every case is "
    "non-trivial; distinct = distinct (fault class, target position, base input) by case hash; fault_classes lists the "
    "classes hit and their counts; one case in six also runs the fault-free base (must exit 0)."
)
ASSUMPTIONS = [
    "faults are injected in data rows only; IN/STAKING amounts <= 0, FEE rows with zero price, repeated *empty* tables and crypto_fee=0 with a fiat fee are not faults (R5, R6, C12-H)",
    "which message is printed is not asserted, only that one is",
]

HIST = gen.GenCfg(min_steps=3, max_steps=9, max_exchanges=2, max_holders=2, fiat_columns=True)

IN_ONLY_BAD = ["SELL", "FEE", "LOST", "MOVE", "FOO", ""]
OUT_ONLY_BAD = ["BUY", "AIRDROP", "HARDFORK", "INCOME", "INTEREST", "MINING", "WAGES", "MOVE", "BAR"]


def budget(tier: str) -> Dict[str, Any]:
    return {"shards": 16, "examples": 64 if tier == "quick" else 600, "shrink": False}


# ------------------------------------------------------------------------------------------------ fault catalogue


def _rows(case: Dict[str, Any], table: str, pred: Any = None) -> List[Tuple[str, int, int]]:
    """(asset, table index, row index) of the data rows of `table` satisfying pred."""
    result = []
    for asset, spec in case["assets"].items():
        for ti, (t, rows) in enumerate(spec["tables"]):
            if t != table:
                continue
            for ri, row in enumerate(rows):
                if pred is None or pred(row):
                    result.append((asset, ti, ri))
    return result


def applicable_faults(case: Dict[str, Any]) -> Dict[str, List[Any]]:
    """fault class -> list of positions where it applies (a position is whatever apply_fault needs)."""
    f: Dict[str, List[Any]] = {}
    any_in = _rows(case, "in")
    any_out = _rows(case, "out")
    any_intra = _rows(case, "intra")
    tables = [(a, ti, t) for a, spec in case["assets"].items() for ti, (t, rows) in enumerate(spec["tables"])]
    nonempty_tables = [(a, ti, t) for a, spec in case["assets"].items() for ti, (t, rows) in enumerate(spec["tables"]) if rows]
    for table, rows in (("in", any_in), ("out", any_out), ("intra", any_intra)):
        if rows:
            f[f"unknown_asset/{table}"] = rows
            if len(case["assets"]) > 1:
                f[f"other_configured_asset/{table}"] = rows
            f[f"timestamp_without_zone/{table}"] = rows
            f[f"timestamp_unparseable/{table}"] = rows
            f[f"timestamp_empty/{table}"] = rows
            f[f"empty_first_cell/{table}"] = rows
            f[f"blank_row_inside_table/{table}"] = rows
            f[f"nested_table_keyword/{table}"] = rows
    if any_in:
        f["unknown_exchange/in"] = any_in
        f["unknown_holder/in"] = any_in
        f["type_not_allowed/in"] = any_in
        non_staking = _rows(case, "in", lambda r: r["type"].lower() != "staking")
        if non_staking:
            f["zero_amount/in.crypto_in"] = non_staking
            f["negative_amount/in.crypto_in"] = non_staking
        f["zero_price/in"] = any_in
        # ... also where the exchange supplied the fiat value itself, so the price is not needed to convert the amount
        f["zero_price/in.fiat_supplied"] = _rows(case, "in", lambda r: "fiat_in_no_fee" in r or "fiat_in_with_fee" in r)
        # ... and a supplied fiat value that is itself non-positive: "non-positive amounts" covers the optional amount columns too
        # (an explicit 0 is a value, not an empty cell - it must not be replaced by crypto_in * spot_price)
        for field in ("fiat_in_no_fee", "fiat_in_with_fee"):
            supplied = _rows(case, "in", lambda r, field=field: field in r)
            f[f"zero_amount/in.{field}.fiat_supplied"] = supplied
            f[f"negative_amount/in.{field}.fiat_supplied"] = supplied
        f["negative_price/in"] = any_in
        f["negative_fee/in.fiat_fee"] = any_in
        f["negative_fee/in.crypto_fee"] = any_in
        f["both_fees/in"] = any_in
        for field in ("crypto_in", "spot_price"):
            f[f"text_in_number/in.{field}"] = any_in
            f[f"numeric_looking_text/in.{field}"] = any_in
            f[f"empty_mandatory_number/in.{field}"] = any_in
        f["empty_mandatory_string/in.exchange"] = any_in
        f["number_in_string_field/in.holder"] = any_in
    if any_out:
        f["unknown_exchange/out"] = any_out
        f["unknown_holder/out"] = any_out
        f["type_not_allowed/out"] = any_out
        non_fee = _rows(case, "out", lambda r: r["type"].lower() != "fee")
        fee_rows = _rows(case, "out", lambda r: r["type"].lower() == "fee")
        if non_fee:
            f["zero_amount/out.crypto_out_no_fee"] = non_fee
            f["negative_amount/out.crypto_out_no_fee"] = non_fee
            f["zero_price/out"] = non_fee
            f["zero_price/out.fiat_supplied"] = _rows(case, "out", lambda r: r["type"].lower() != "fee" and "fiat_out_no_fee" in r)
            f["zero_amount/out.crypto_out_no_fee.fiat_supplied"] = _rows(case, "out", lambda r: r["type"].lower() != "fee" and "fiat_out_no_fee" in r)
            f["negative_fee/out.crypto_fee"] = non_fee
        if fee_rows:
            f["zero_fee_on_fee_typed/out"] = fee_rows
            f["nonzero_amount_on_fee_typed/out"] = fee_rows
        for field in ("crypto_out_no_fee", "crypto_fee", "spot_price"):
            f[f"text_in_number/out.{field}"] = any_out
            f[f"empty_mandatory_number/out.{field}"] = any_out
        f["numeric_looking_text/out.crypto_fee"] = any_out
    if any_intra:
        f["unknown_exchange/intra.from"] = any_intra
        f["unknown_exchange/intra.to"] = any_intra
        f["unknown_holder/intra.from"] = any_intra
        f["unknown_holder/intra.to"] = any_intra
        f["zero_amount/intra.crypto_sent"] = any_intra
        f["negative_amount/intra.crypto_sent"] = any_intra
        f["negative_amount/intra.crypto_received"] = any_intra
        f["received_greater_than_sent/intra"] = any_intra
        with_fee = _rows(case, "intra", lambda r: model.F(r["sent"]) > model.F(r["received"]))
        if with_fee:
            f["zero_price_with_fee/intra"] = with_fee
            f["empty_price_with_fee/intra"] = with_fee
        for field in ("crypto_sent", "crypto_received"):
            f[f"text_in_number/intra.{field}"] = any_intra
            f[f"empty_mandatory_number/intra.{field}"] = any_intra
    # structure
    f["missing_table_end"] = tables
    f["missing_table_end_of_last_table"] = list(case["assets"])  # nothing at all follows the last data row
    if nonempty_tables:
        f["repeated_non_empty_table"] = nonempty_tables
        f["missing_header"] = nonempty_tables
    f["data_outside_table"] = list(case["assets"])
    f["spurious_table_end"] = list(case["assets"])
    f["missing_in_table"] = list(case["assets"])
    f["empty_in_table"] = list(case["assets"])
    f["sheet_missing_for_configured_asset"] = list(case["assets"])
    f["unknown_table_keyword_row_with_data"] = list(case["assets"])
    # config
    for section in ("general", "in_header", "out_header", "intra_header"):
        f[f"config_missing_section/{section}"] = [None]
        f[f"config_duplicated_section/{section}"] = [None]
    for key in ("assets", "exchanges", "holders"):
        f[f"config_missing_field/{key}"] = [None]
        f[f"config_empty_field/{key}"] = [None]
    f["config_duplicate_list_element/exchanges"] = [None]
    for table in ("in", "out", "intra"):
        f[f"config_duplicate_column_number/{table}"] = [None]
        f[f"config_duplicate_option/{table}"] = [None]  # the same field listed twice in one header section
        f[f"config_negative_column/{table}"] = [None]
        f[f"config_non_integer_column/{table}"] = [None]
        f[f"config_unknown_field/{table}"] = [None]
        f[f"config_column_beyond_sheet/{table}"] = [None] if {"in": any_in, "out": any_out, "intra": any_intra}[table] else []
    f["config_unknown_section"] = [None]
    f["config_json_format"] = [None]
    f["config_bad_year_in_accounting_methods"] = [None]
    f["config_year_before_1970"] = [None]
    f["config_unknown_method_in_accounting_methods"] = [None]
    f["config_empty_accounting_methods_value"] = [None]
    # command line
    f["cli_method_and_section"] = [None]
    if case["country"] in ("es", "ie", "jp"):
        f["cli_method_not_accepted_by_country"] = [None]
    f["cli_unknown_method"] = [None]
    f["cli_from_after_to"] = [None]
    f["cli_unknown_option"] = [None]
    f["cli_deprecated_plugin_option"] = [None]
    f["cli_missing_config_file"] = [None]
    f["cli_missing_input_file"] = [None]
    f["cli_input_not_ods"] = [None]
    f["cli_unknown_asset_option"] = [None]
    f["cli_unknown_language"] = [None]
    f["cli_bad_date"] = [None]
    if case["country"] == "generic":
        f["cli_generic_without_currency_env"] = [None]
        f["cli_generic_bad_long_term_env"] = [None]
    return {k: v for k, v in f.items() if v}


@st.composite
def strategy_case(draw: Any, one_shot_weight: int = 1) -> Dict[str, Any]:
    base = draw(filegen.file_case(countries=cli.COUNTRIES, hist=HIST, windows=False, schedules=False, flavours=("mixed", "mixed", "mixed", "buy_only", "income_only", "transfer_heavy")))
    base["schedule"] = None
    base["from"] = base["to"] = None
    faults = applicable_faults(base)
    # The fault class is a hash of the drawn base input (a pure function of the test data, reproducible) rather than a draw of
    # its own: Hypothesis' integer / sampled_from / randoms draws favour the ends of their range, which left many of the ~130
    # classes with 0-1 runs and a few with hundreds; the base input carries plenty of entropy, so the hash is close to uniform
    # and every class is expected several times per quick run.  Classes that apply at several positions (row-level faults:
    # whether they are noticed can depend on the row, e.g. only rows that later take part in a gain/loss pairing) count double.
    # The position and the base input stay plain draws.
    # (... and the classes that need a row with an exchange-supplied fiat value, present in about half of the inputs, triple)
    weighted = [k for k in sorted(faults) for _ in range(3 if k.endswith(".fiat_supplied") else 2 if len(faults[k]) > 1 else one_shot_weight)]
    kind = weighted[case_hash(base) % len(weighted)]
    position = draw(st.sampled_from(faults[kind]))
    base["fault"] = {"kind": kind, "position": list(position) if isinstance(position, tuple) else position, "variant": draw(st.integers(0, 5))}
    # a third of the row / structure / config faults are run with a date window as well: -f / -t choose what is *reported*, the
    # whole input is still the input - a fault in a row outside the window is a fault (JP refuses -f with -t: one of them only)
    if not kind.startswith("cli_") and draw(st.integers(0, 2)) == 0:
        all_txs = [model.make_tx(dict(r, row=1)) for spec in base["assets"].values() for _, rows in spec["tables"] for r in rows]
        first, second = draw(gen.window_date(all_txs)), draw(gen.window_date(all_txs))
        if first and second:
            wkind = draw(st.integers(0, 2))
            if wkind == 0 or base["country"] == "jp":
                base["window_args"] = ["-t", min(first, second)] if draw(st.booleans()) else ["-f", max(first, second)]
            elif wkind == 1:
                base["window_args"] = ["-t", min(first, second)]
            else:
                base["window_args"] = ["-f", min(first, second), "-t", max(first, second)]
    base["check_base"] = draw(st.integers(0, 5)) == 0
    return base


def strategy(tier: str) -> Any:
    return strategy_case()


# ------------------------------------------------------------------------------------------------ applying a fault


def _cell(grids: Dict[str, List[List[Any]]], case: Dict[str, Any], pos: List[Any], field: str, value: Any) -> None:
    asset, ti, ri = pos
    table, rows = case["assets"][asset]["tables"][ti]
    layout = files.default_layout()[table]
    grids[asset][rows[ri]["row"] - 1][layout[field]] = value


def _table_span(case: Dict[str, Any], asset: str, ti: int) -> Tuple[int, int, int]:
    """0-based grid indexes (keyword row, header row, TABLE END row) of a table."""
    spec = case["assets"][asset]
    index = spec.get("first_blank", 0)
    for k, (t, rows) in enumerate(spec["tables"]):
        start = index
        end = start + 2 + len(rows)
        if k == ti:
            return start, start + 1, end
        index = end + 1 + spec.get("blank", 1)
    raise IndexError(ti)


def build(case: Dict[str, Any], folder: str, with_fault: bool = True) -> Tuple[str, str, List[str], Dict[str, Optional[str]]]:
    """Write the (faulty) input; returns (ini, ods, extra CLI args, env overrides)."""
    os.makedirs(folder, exist_ok=True)
    grids = filegen.stamp_rows(case)
    fault = case["fault"] if with_fault else {"kind": "none", "position": None, "variant": 0}
    kind, pos, variant = fault["kind"], fault["position"], fault["variant"]
    head, _, target = kind.partition("/")
    layout = files.default_layout()
    assets = list(case["assets"])
    exchanges, holders = list(case["exchanges"]), list(case["holders"])
    schedule: Optional[Dict[str, str]] = None
    extra_ini = ""
    extra_args: List[str] = []
    env: Dict[str, Optional[str]] = {}
    sheet_names = list(case["assets"])
    ini = os.path.join(folder, "input.ini")
    ods = os.path.join(folder, "input.ods")
    ini_override: Optional[str] = None
    width = len(next(iter(grids.values()))[0])
    blank = [None] * width

    if head == "unknown_asset":
        _cell(grids, case, pos, "asset", "ZZZ")
    elif head == "other_configured_asset":
        other = [a for a in assets if a != pos[0]][0]
        _cell(grids, case, pos, "asset", other)
    elif head == "unknown_exchange":
        field = {"in": "exchange", "out": "exchange", "intra.from": "from_exchange", "intra.to": "to_exchange"}[target]
        # ... a third of them a configured name padded with white space (what a sloppy export or a stray key press produces):
        # the configured names are listed verbatim in the .ini, "Kraken " is not one of them
        _cell(grids, case, pos, field, ["Binance", "coinbase", "Coinbase  Pro", " Kraken x", exchanges[0] + " ", " " + exchanges[-1]][variant % 6])
    elif head == "unknown_holder":
        field = {"in": "holder", "out": "holder", "intra.from": "from_holder", "intra.to": "to_holder"}[target]
        _cell(grids, case, pos, field, ["Carol", "bob", "Bob Jr", holders[0] + " ", " " + holders[-1], holders[0] + "  "][variant % 6])
    elif head == "timestamp_without_zone":
        asset, ti, ri = pos
        ts = case["assets"][asset]["tables"][ti][1][ri]["ts"]
        _cell(grids, case, pos, "timestamp", ts[:-6])
    elif head == "timestamp_unparseable":
        _cell(grids, case, pos, "timestamp", ["2020-13-45 99:00:00+00:00", "not a date", "2020-02-30 10:00:00+00:00", 43831.5][variant % 4])
    elif head == "timestamp_empty":
        _cell(grids, case, pos, "timestamp", None) if files.default_layout()[target]["timestamp"] != 0 else _cell(grids, case, pos, "timestamp", "   ")
    elif head == "type_not_allowed":
        _cell(grids, case, pos, "transaction_type", (IN_ONLY_BAD if target == "in" else OUT_ONLY_BAD)[variant % (len(IN_ONLY_BAD) if target == "in" else len(OUT_ONLY_BAD))] or None)
    elif head in ("zero_amount", "negative_amount"):
        table, field = target.split(".")[:2]
        _cell(grids, case, pos, field, 0.0 if head == "zero_amount" else [-1.0, -0.00000001][variant % 2])
    elif head == "zero_price":
        _cell(grids, case, pos, "spot_price", 0.0)
    elif head == "negative_price":
        _cell(grids, case, pos, "spot_price", -100.0)
    elif head == "negative_fee":
        table, field = target.split(".")
        if table == "in":
            _cell(grids, case, pos, "crypto_fee", None)
            _cell(grids, case, pos, "fiat_fee", None)
        _cell(grids, case, pos, field, -0.5)
    elif head == "both_fees":
        _cell(grids, case, pos, "crypto_fee", 0.001)
        _cell(grids, case, pos, "fiat_fee", 1.5)
    elif head == "zero_fee_on_fee_typed":
        _cell(grids, case, pos, "crypto_fee", 0.0)
    elif head == "nonzero_amount_on_fee_typed":
        _cell(grids, case, pos, "crypto_out_no_fee", 0.5)
    elif head == "received_greater_than_sent":
        asset, ti, ri = pos
        sent = float(case["assets"][asset]["tables"][ti][1][ri]["sent"])
        _cell(grids, case, pos, "crypto_received", sent + [1e-9, 1.0][variant % 2])
    elif head == "zero_price_with_fee":
        _cell(grids, case, pos, "spot_price", 0.0)
    elif head == "empty_price_with_fee":
        _cell(grids, case, pos, "spot_price", None)
    elif head == "text_in_number":
        _cell(grids, case, pos, target.split(".")[1], ["abc", "12,5", "1.5 BTC", "-"][variant % 4])
    elif head == "numeric_looking_text":
        _cell(grids, case, pos, target.split(".")[1], ["1.5", "100", "0.25"][variant % 3])
    elif head == "empty_mandatory_number":
        _cell(grids, case, pos, target.split(".")[1], None)
    elif head == "empty_mandatory_string":
        _cell(grids, case, pos, target.split(".")[1], None)
    elif head == "number_in_string_field":
        _cell(grids, case, pos, target.split(".")[1], 12.0)
    elif head == "empty_first_cell":
        asset, ti, ri = pos
        grids[asset][case["assets"][asset]["tables"][ti][1][ri]["row"] - 1][0] = None
    elif head == "blank_row_inside_table":
        asset, ti, ri = pos
        grids[asset].insert(case["assets"][asset]["tables"][ti][1][ri]["row"] - 1 + (variant % 2), list(blank))
    elif head == "nested_table_keyword":
        asset, ti, ri = pos
        grids[asset].insert(case["assets"][asset]["tables"][ti][1][ri]["row"] - 1 + (variant % 2), [["IN", "OUT", "INTRA", "in", "Out"][variant % 5]] + blank[1:])
    elif head == "missing_table_end":
        asset, ti, _t = pos
        _, _, end = _table_span(case, asset, ti)
        del grids[asset][end]
    elif head == "missing_table_end_of_last_table":
        while grids[pos] and grids[pos][-1][0] in (None, ""):
            grids[pos].pop()
        if grids[pos][-1][0] == "TABLE END":
            grids[pos].pop()
    elif head == "repeated_non_empty_table":
        asset, ti, _t = pos
        start, _, end = _table_span(case, asset, ti)
        block = [list(r) for r in grids[asset][start : end + 1]]
        grids[asset].extend([list(blank)] + block)
    elif head == "missing_header":
        asset, ti, _t = pos
        _, header, _ = _table_span(case, asset, ti)
        del grids[asset][header]
    elif head == "data_outside_table":
        grids[pos].append([["stray", "note to self", 42.0][variant % 3]] + blank[1:])
    elif head == "spurious_table_end":
        if variant % 2:
            grids[pos].append(["TABLE END"] + blank[1:])
        else:
            grids[pos].insert(0, ["TABLE END"] + blank[1:])
    elif head == "unknown_table_keyword_row_with_data":
        grids[pos].extend([["TRADES"] + blank[1:], ["TABLE END"] + blank[1:]])
    elif head in ("missing_in_table", "empty_in_table"):
        asset = pos
        ti = [k for k, (t, _) in enumerate(case["assets"][asset]["tables"]) if t == "in"][0]
        start, header, end = _table_span(case, asset, ti)
        if head == "missing_in_table":
            del grids[asset][start : end + 1]
        else:
            del grids[asset][header + 1 : end]
    elif head == "sheet_missing_for_configured_asset":
        sheet_names = [a for a in sheet_names if a != pos]
    elif head == "config_missing_field":
        pass
    elif head == "cli_method_and_section":
        schedule = {"1970": "fifo"}
        extra_args = ["-m", "fifo"]
    elif head == "cli_method_not_accepted_by_country":
        extra_args = ["-m", ["lifo", "hifo", "lofo"][variant % 3]]
    elif head == "cli_unknown_method":
        extra_args = ["-m", ["average", "FIFO", "fifo2"][variant % 3]]
    elif head == "cli_from_after_to":
        extra_args = ["-f", "2021-06-02", "-t", "2021-06-01"]
    elif head == "cli_unknown_option":
        extra_args = [["--frobnicate", "-z", "--method_fifo"][variant % 3]]
    elif head == "cli_deprecated_plugin_option":
        extra_args = ["-l", "rp2_full_report"]
    elif head == "cli_unknown_asset_option":
        extra_args = ["-a", "ZZZ"]
    elif head == "cli_unknown_language":
        extra_args = ["-g", ["xx", "zz_ZZ", "klingon"][variant % 3]]
    elif head == "cli_bad_date":
        extra_args = [["-f", "-t"][variant % 2], ["2021-13-01", "yesterday", "01/02/2021"][variant % 3]]
    elif head == "cli_generic_without_currency_env":
        env = {"CURRENCY_CODE": None}
    elif head == "cli_generic_bad_long_term_env":
        env = {"LONG_TERM_CAPITAL_GAINS": ["-1", "one year", ""][variant % 3]}
    elif head == "config_bad_year_in_accounting_methods":
        extra_ini = "[accounting_methods]\n" + ["twenty20 = fifo", "20.5 = fifo", " = fifo"][variant % 2] + "\n"
    elif head == "config_year_before_1970":
        extra_ini = "[accounting_methods]\n1969 = fifo\n"
    elif head == "config_unknown_method_in_accounting_methods":
        extra_ini = "[accounting_methods]\n1970 = " + ["average", "FIFO ", "fifo,lifo"][variant % 3] + "\n"
    elif head == "config_empty_accounting_methods_value":
        extra_ini = "[accounting_methods]\n1970 =\n"
    elif head == "config_unknown_section":
        extra_ini = ["[taxes]\nrate = 10\n", "[in_headers]\ntimestamp = 0\n"][variant % 2]

    files.write_ini(ini, assets, exchanges, holders, layout, schedule, extra_ini)
    text = open(ini, encoding="utf-8").read()
    if head == "config_missing_section":
        lines = text.split("\n")
        start = lines.index(f"[{target}]")
        stop = next((i for i in range(start + 1, len(lines)) if lines[i].startswith("[")), len(lines))
        text = "\n".join(lines[:start] + lines[stop:])
    elif head == "config_duplicated_section":
        lines = text.split("\n")
        start = lines.index(f"[{target}]")
        stop = next((i for i in range(start + 1, len(lines)) if lines[i].startswith("[")), len(lines))
        dup_name = target if variant % 2 == 0 else f"{target} again"  # ConfigParser duplicate vs RP2's "section name + suffix"
        text = text + "\n" + "\n".join([f"[{dup_name}]"] + lines[start + 1 : stop]) + "\n"
    elif head == "config_missing_field":
        text = "\n".join(line for line in text.split("\n") if not line.startswith(f"{target} ="))
    elif head == "config_empty_field":
        text = "\n".join((f"{target} = " + ["", "   ", ","][variant % 3]) if line.startswith(f"{target} =") else line for line in text.split("\n"))
    elif head == "config_duplicate_option":
        lines = text.split("\n")
        start = lines.index(f"[{target}_header]")
        pick = start + 1 + variant % 3
        lines.insert(start + 4, lines[pick] if variant % 2 == 0 else lines[pick].split("=")[0] + "= 29")
        text = "\n".join(lines)
    elif head == "config_duplicate_list_element":
        text = text.replace(f"exchanges = {', '.join(exchanges)}", f"exchanges = {', '.join(exchanges + [exchanges[0]])}")
    elif head in ("config_duplicate_column_number", "config_negative_column", "config_non_integer_column", "config_unknown_field", "config_column_beyond_sheet"):
        lines = text.split("\n")
        start = lines.index(f"[{target}_header]")
        if head == "config_duplicate_column_number":
            lines[start + 2] = lines[start + 2].split("=")[0] + "= 0"
        elif head == "config_negative_column":
            lines[start + 3] = lines[start + 3].split("=")[0] + "= -1"
        elif head == "config_non_integer_column":
            lines[start + 3] = lines[start + 3].split("=")[0] + "= " + ["B", "1.5", ""][variant % 3]
        elif head == "config_unknown_field":
            lines.insert(start + 1, ["price = 30", "crypto_amount = 31", "timestamp_utc = 32"][variant % 3])
        else:
            lines = [(line.split("=")[0] + f"= {width + 5}") if i > start and line.startswith("notes") and i < start + 16 else line for i, line in enumerate(lines)]
        text = "\n".join(lines)
    elif head == "config_json_format":
        text = json.dumps({"in_header": {"timestamp": 0}, "assets": assets, "exchanges": exchanges, "holders": holders})
    with open(ini, "w", encoding="utf-8") as handle:
        handle.write(text)
    files.write_ods(ods, [(a, grids[a]) for a in sheet_names])
    if head == "cli_missing_config_file":
        ini = os.path.join(folder, "nonexistent.ini")
    elif head == "cli_missing_input_file":
        ods = os.path.join(folder, "nonexistent.ods")
    elif head == "cli_input_not_ods":
        other = os.path.join(folder, "input.xlsx")
        os.replace(ods, other)
        ods = other
    return ini, ods, extra_args, env


def run(case: Dict[str, Any], folder: str, with_fault: bool = True) -> Tuple[cli.CliResult, str]:
    ini, ods, extra_args, env = build(case, folder, with_fault)
    outdir = os.path.join(folder, "out_fault" if with_fault else "out_base")
    args = cli.build_args(ini, ods, outdir, method=case.get("method") if not (with_fault and case["fault"]["kind"].startswith("cli_method")) else None, lang=case.get("lang"), extra=list(extra_args) + list(case.get("window_args") or []))
    env_extra: Dict[str, Any] = {}
    if case["country"] == "generic":
        env_extra = {"CURRENCY_CODE": "usd", "LONG_TERM_CAPITAL_GAINS": str(case.get("long_term_days", 365))}
    env_extra.update(env)
    result = cli.run_rp2(case["country"], args, cwd=folder, outdir=outdir, env_extra=env_extra)
    return result, outdir


def evaluate(case: Dict[str, Any]) -> Outcome:
    out = Outcome()
    out.nontrivial = True
    kind = case["fault"]["kind"]
    out.classes.add(f"fault_{kind}")
    if case.get("window_args"):
        out.classes.add("with_date_window_" + "+".join(a for a in case["window_args"] if a.startswith("-")))
    out.classes.add(f"country_{case['country']}")
    folder = cli_common.work_dir("c12")
    try:
        if case.get("check_base"):
            base, _ = run(case, folder, with_fault=False)
            if base.rc != 0:
                out.skipped = "base_input_not_accepted"
                out.classes.add("base_rejected")
                return out
            out.classes.add("base_verified_valid")
        result, outdir = run(case, folder)
        reports = [name for name in result.files if name.endswith(".ods")]
        text = result.text.strip()
        where = f"fault {kind} at {case['fault']['position']} (variant {case['fault']['variant']}), rp2_{case['country']}"
        if result.rc == 0:
            out.fail(f"fault_accepted:{kind.split('/')[0]}", f"{where}: exit status 0, files written: {result.files}")
        elif reports:
            out.fail(f"report_written_despite_error:{kind.split('/')[0]}", f"{where}: exit status {result.rc} but the output directory holds {reports}")
        elif not any(word in text for word in ("ERROR", "Error", "error", "usage:", "not found", "does not end", "Traceback")):
            out.fail(f"no_error_message:{kind.split('/')[0]}", f"{where}: exit status {result.rc} without any error text: {text[-200:]!r}")
    finally:
        cli_common.cleanup(folder)
    return out
