#!/venv/bin/python
"""Seeded regressions (written by independent sub-agents, see DESIGN.md section 10).

usage:
  tools/seeded.py verify <dir>              confirm a candidate (<dir>/patch.diff + <dir>/demo.py) in a fresh scratch worktree:
                                            patch applies, 48 stable tests pass, demo exits 1 with it and 0 without it
  tools/seeded.py run <id> [Cnn ...]        run check(s) (default: meta.json's property) against /verif/seeded/<id>/patch.diff applied
                                            to a scratch copy of /repo/src (never to /repo); --tier quick|thorough, --seed N
  tools/seeded.py inplace <id> [Cnn ...]    same, but `git -C /repo apply`, run, `git -C /repo checkout -- .` (serial use only)
  tools/seeded.py table                     run every seeded change against its property's quick check and print a table

Scratch copies and worktrees live under /tmp and are removed before the command returns.
"""
import json
import os
import shutil
import subprocess
import sys
import tempfile
import time

VERIF = os.path.dirname(os.path.dirname(os.path.abspath(__file__)))
SEEDED = os.path.join(VERIF, "seeded")
PY = "/venv/bin/python"


def sh(cmd, **kw):
    return subprocess.run(cmd, capture_output=True, text=True, **kw)


def verify(cand: str) -> dict:
    cand = os.path.abspath(cand)
    patch = os.path.join(cand, "patch.diff")
    demo = os.path.join(cand, "demo.py")
    res = {"candidate": cand}
    wt = tempfile.mkdtemp(prefix="rp2v_seedwt_")
    os.rmdir(wt)
    work = tempfile.mkdtemp(prefix="rp2v_seedrun_")
    try:
        p = sh(["git", "-C", "/repo", "worktree", "add", "--detach", wt, "HEAD"])
        if p.returncode:
            return {**res, "error": p.stderr}
        env = dict(os.environ, PYTHONPATH=os.path.join(wt, "src"), PYTHONDONTWRITEBYTECODE="1", PYTHONHASHSEED="0")
        shutil.copy(demo, os.path.join(work, "demo.py"))
        for extra in os.listdir(cand):  # auxiliary inputs the demo may read
            if extra not in ("patch.diff", "demo.py", "log", "meta.json") and not os.path.isdir(os.path.join(cand, extra)):
                shutil.copy(os.path.join(cand, extra), work)
        t = time.time()
        p = sh([PY, "demo.py"], cwd=work, env=env, timeout=600)
        res["demo_without"] = p.returncode
        res["demo_without_s"] = round(time.time() - t, 1)
        p = sh(["git", "-C", wt, "apply", "--whitespace=nowarn", patch])
        res["applies"] = p.returncode == 0
        if p.returncode:
            res["apply_err"] = p.stderr[-500:]
            return res
        p = sh([PY, "-m", "compileall", "-q", os.path.join(wt, "src", "rp2")], env=dict(env, PYTHONDONTWRITEBYTECODE="1"))
        res["compiles"] = p.returncode == 0
        p = sh([os.path.join(VERIF, "tools", "seeded_baseline.sh"), wt])
        res["baseline"] = p.stdout.strip().splitlines()[:4]
        res["baseline_ok"] = p.returncode == 0
        p = sh([PY, "demo.py"], cwd=work, env=env, timeout=600)
        res["demo_with"] = p.returncode
        res["demo_with_out"] = (p.stdout + p.stderr)[-600:]
        res["diffstat"] = sh(["git", "-C", wt, "diff", "--stat"]).stdout.strip().splitlines()[-1:]
        res["ok"] = bool(res["baseline_ok"] and res["demo_with"] == 1 and res["demo_without"] == 0)
        return res
    finally:
        sh(["git", "-C", "/repo", "worktree", "remove", "--force", wt])
        shutil.rmtree(wt, ignore_errors=True)
        shutil.rmtree(work, ignore_errors=True)
        sh(["git", "-C", "/repo", "worktree", "prune"])


def accept(tag: str, prop: str, needs: str) -> dict:
    """verify /tmp/seedout/<tag>, then keep it as /verif/seeded/<tag>/ and drop the agent's worktree /tmp/wt_<tag>."""
    cand = os.path.join("/tmp/seedout", tag)
    res = verify(cand)
    if not res.get("ok"):
        return res
    dest = os.path.join(SEEDED, tag)
    os.makedirs(dest, exist_ok=True)
    for name in ("patch.diff", "demo.py", "notes.md"):
        if os.path.exists(os.path.join(cand, name)):
            shutil.copy(os.path.join(cand, name), dest)
    for extra in os.listdir(cand):
        full = os.path.join(cand, extra)
        if os.path.isfile(full) and extra not in ("patch.diff", "demo.py", "notes.md", "TASK.md") and os.path.getsize(full) < 200000 and not extra.endswith(".log"):
            shutil.copy(full, dest)
    meta = {
        "id": tag,
        "property": prop,
        "origin": "independent sub-agent given only the property record and a scratch worktree of /repo (nothing from /verif)",
        "needs_to_manifest": needs,
        "confirmed": {
            "how": "tools/seeded.py verify: fresh scratch worktree of /repo HEAD; demo.py run before and after `git apply patch.diff`; tools/seeded_baseline.sh (the 48 stable tests of /root/.vp/BASELINE.json) with the patch applied",
            "patch_applies": res["applies"],
            "baseline": res["baseline"],
            "demo_exit_without_patch": res["demo_without"],
            "demo_exit_with_patch": res["demo_with"],
            "diffstat": res["diffstat"],
            "repo_head": sh(["git", "-C", "/repo", "rev-parse", "--short", "HEAD"]).stdout.strip(),
        },
        "detected_by": {},
    }
    with open(os.path.join(dest, "meta.json"), "w", encoding="utf-8") as handle:
        json.dump(meta, handle, indent=1)
    wt = os.path.join("/tmp", "wt_" + tag)
    if os.path.isdir(wt):
        sh(["git", "-C", "/repo", "worktree", "remove", "--force", wt])
        shutil.rmtree(wt, ignore_errors=True)
        sh(["git", "-C", "/repo", "worktree", "prune"])
    return {"accepted": tag, **res}


def _checks_for(seed_id: str, args):
    checks = [a for a in args if a.startswith("C") and a[1:3].isdigit() and len(a) == 3]
    if not checks:
        meta = json.load(open(os.path.join(SEEDED, seed_id, "meta.json")))
        checks = [meta["property"]]
    return checks


def _opt(args, name, default):
    if name in args:
        i = args.index(name)
        val = args[i + 1]
        del args[i : i + 2]
        return val
    return default


def _run_checks(checks, tier, seed, env, scratch):
    out = {}
    for check in checks:
        env = dict(env)
        env["RP2V_EVIDENCE_DIR"] = os.path.join(scratch, "evidence")
        env["RP2V_REPLAY_DIR"] = os.path.join(scratch, "replays")
        env["PYTHONDONTWRITEBYTECODE"] = "1"
        env.setdefault("RP2V_FAST_FAIL", "1")
        env["VERIF_SEED"] = str(seed)
        start = time.time()
        proc = sh([os.path.join(VERIF, "check"), check, "--tier", tier], cwd=VERIF, env=env)
        lines = (proc.stdout + proc.stderr).splitlines()
        out[check] = {
            "exit": proc.returncode,
            "wall_s": round(time.time() - start, 1),
            "clauses": [l for l in lines if l.startswith("violated clause")][:3],
            "violations": len([l for l in lines if l.startswith("VIOLATION")]),
        }
        if proc.returncode == 2:
            out[check]["tail"] = "\n".join(lines[-12:])
    return out


def run(seed_id: str, args) -> dict:
    tier = _opt(args, "--tier", "quick")
    seed = _opt(args, "--seed", "1")
    checks = _checks_for(seed_id, args)
    patch = os.path.join(SEEDED, seed_id, "patch.diff")
    scratch = tempfile.mkdtemp(prefix="rp2v_seed_")
    try:
        shutil.copytree("/repo/src", os.path.join(scratch, "src"), ignore=shutil.ignore_patterns("__pycache__", "*.egg-info"))
        p = sh(["patch", "-p1", "-s", "-d", scratch, "-i", patch])
        if p.returncode:
            return {"seeded": seed_id, "error": "patch does not apply: " + (p.stdout + p.stderr)[-300:]}
        env = dict(os.environ)
        env["PYTHONPATH"] = os.path.join(scratch, "src")
        env["RP2V_REPO_SRC"] = os.path.join(scratch, "src", "rp2")
        return {"seeded": seed_id, "tier": tier, "seed": seed, "results": _run_checks(checks, tier, seed, env, scratch)}
    finally:
        shutil.rmtree(scratch, ignore_errors=True)


def inplace(seed_id: str, args) -> dict:
    tier = _opt(args, "--tier", "quick")
    seed = _opt(args, "--seed", "1")
    checks = _checks_for(seed_id, args)
    patch = os.path.join(SEEDED, seed_id, "patch.diff")
    if sh(["git", "-C", "/repo", "status", "--porcelain", "--untracked-files=no"]).stdout.strip():
        return {"seeded": seed_id, "error": "/repo has uncommitted changes; refusing"}
    scratch = tempfile.mkdtemp(prefix="rp2v_seed_")
    try:
        p = sh(["git", "-C", "/repo", "apply", "--whitespace=nowarn", patch])
        if p.returncode:
            return {"seeded": seed_id, "error": "patch does not apply: " + p.stderr[-300:]}
        return {"seeded": seed_id, "tier": tier, "seed": seed, "mode": "inplace", "results": _run_checks(checks, tier, seed, dict(os.environ), scratch)}
    finally:
        sh(["git", "-C", "/repo", "checkout", "--", "."])
        shutil.rmtree(scratch, ignore_errors=True)


def main() -> None:
    args = sys.argv[1:]
    if not args:
        print(__doc__)
        return
    cmd = args.pop(0)
    if cmd == "verify":
        print(json.dumps(verify(args[0]), indent=1))
    elif cmd == "accept":
        print(json.dumps(accept(args[0], args[1], args[2]), indent=1))
    elif cmd == "run":
        print(json.dumps(run(args[0], args[1:])))
    elif cmd == "inplace":
        print(json.dumps(inplace(args[0], args[1:])))
    elif cmd == "table":
        mode = inplace if "--inplace" in args else run
        args = [a for a in args if a != "--inplace"]
        jobs = int(_opt(args, "--jobs", "1"))
        record = "--record" in args
        args = [a for a in args if a != "--record"]
        only = _opt(args, "--only", "")
        ids = [d for d in sorted(os.listdir(SEEDED)) if os.path.exists(os.path.join(SEEDED, d, "patch.diff")) and (not only or d in only.split(","))]
        if mode is inplace:
            jobs = 1

        def one(seed_id):
            res = mode(seed_id, list(args))
            if record and "results" in res:
                meta_path = os.path.join(SEEDED, seed_id, "meta.json")
                meta = json.load(open(meta_path))
                for check, r in res["results"].items():
                    meta.setdefault("detected_by", {})[check] = {
                        "detected": r["exit"] == 1,
                        "exit": r["exit"],
                        "tier": res["tier"],
                        "seed": res["seed"],
                        "mode": res.get("mode", "scratch copy of /repo/src on PYTHONPATH"),
                        "first_clause": (r["clauses"][0].replace("violated clause: ", "") if r["clauses"] else None),
                        "verif_commit": sh(["git", "-C", VERIF, "rev-parse", "--short", "HEAD"]).stdout.strip(),
                    }
                json.dump(meta, open(meta_path, "w"), indent=1)
            return res

        if jobs > 1:
            from concurrent.futures import ThreadPoolExecutor

            with ThreadPoolExecutor(max_workers=jobs) as pool:
                for res in pool.map(one, ids):
                    print(json.dumps(res))
                    sys.stdout.flush()
        else:
            for seed_id in ids:
                print(json.dumps(one(seed_id)))
                sys.stdout.flush()
    elif cmd == "report":
        print("| id | property | what it needs in order to manifest | detected by (quick tier) | first violated clause |")
        print("|---|---|---|---|---|")
        hit = total = any_hit = 0
        for seed_id in sorted(os.listdir(SEEDED)):
            meta_path = os.path.join(SEEDED, seed_id, "meta.json")
            if not os.path.exists(meta_path):
                continue
            meta = json.load(open(meta_path))
            det = meta.get("detected_by", {})
            own = det.get(meta["property"], {})
            total += 1
            hit += 1 if own.get("detected") else 0
            others = [c for c, r in det.items() if r.get("detected") and c != meta["property"]]
            any_hit += 1 if (own.get("detected") or others) else 0
            cell = (meta["property"] if own.get("detected") else "**not by " + meta["property"] + "**") + (" (also " + ", ".join(others) + ")" if others else "")
            print(f"| {seed_id} | {meta['property']} | {meta['needs_to_manifest']} | {cell} | {own.get('first_clause') or ''} |")
        print(f"\n{hit} of {total} seeded regressions are detected by the quick tier of the check of the property they were written against; {any_hit} of {total} by the quick tier of at least one check.")
    else:
        print(__doc__)


if __name__ == "__main__":
    main()
