#!/bin/bash
# usage: baseline48.sh <worktree>   -- runs the repository's test suite against <worktree>/src and checks the 48 stable tests pass
set -u
WT=$(readlink -f "$1")
OUT=$(mktemp /tmp/baseline48_XXXX.xml)
cd "$WT" && PYTHONPATH="$WT/src" PYTHONDONTWRITEBYTECODE=1 /venv/bin/python -m pytest -ra -q -p no:cacheprovider --timeout=900 --continue-on-collection-errors --junitxml="$OUT" >/dev/null 2>&1
/venv/bin/python - "$OUT" <<'PY'
import json, sys
import xml.etree.ElementTree as ET
stable = set(json.load(open("/root/.vp/BASELINE.json"))["stable_pass"])
root = ET.parse(sys.argv[1]).getroot()
passed = set()
for tc in root.iter("testcase"):
    name = f"{tc.get('classname')}::{tc.get('name')}"
    if not any(child.tag in ("failure", "error", "skipped") for child in tc):
        passed.add(name)
missing = sorted(stable - passed)
print(f"baseline: {len(stable & passed)}/{len(stable)} stable tests pass")
for m in missing:
    print("  NOT PASSING:", m)
sys.exit(1 if missing else 0)
PY
RC=$?
rm -f "$OUT"
exit $RC
