#!/venv/bin/python
"""MANIFEST.setup_cmd: verifies (offline) that everything the checks need is importable; installs Hypothesis from the
local wheelhouse only if it is missing from /venv."""
import os
import subprocess
import sys
import tempfile

os.chdir(tempfile.mkdtemp(prefix="rp2v_setup_"))  # rp2.logger creates ./log at import


def have(module: str) -> bool:
    try:
        __import__(module)
        return True
    except ImportError:
        return False


if not have("hypothesis"):
    subprocess.check_call([sys.executable, "-m", "pip", "install", "--no-index", "--find-links", "/opt/veriftools/wheels", "hypothesis"])
import ezodf  # noqa: E402,F401
import hypothesis  # noqa: E402
import lxml  # noqa: E402,F401
import rp2  # noqa: E402

src = os.path.realpath(os.path.dirname(rp2.__file__))
if src != os.path.realpath("/repo/src/rp2"):
    print(f"setup: rp2 is imported from {src}, not from /repo/src/rp2 (editable install expected)")
    sys.exit(1)
for entry in ("rp2_us", "rp2_es", "rp2_ie", "rp2_jp", "rp2_generic"):
    if not os.path.exists(f"/venv/bin/{entry}"):
        print(f"setup: /venv/bin/{entry} missing")
        sys.exit(1)
print(f"setup ok: hypothesis {hypothesis.__version__}, rp2 from {src}")
