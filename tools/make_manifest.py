#!/venv/bin/python
"""Regenerates /verif/MANIFEST.json from the table below (one entry per property that has a registered check)."""
import json
import os

VERIF = os.path.dirname(os.path.dirname(os.path.abspath(__file__)))

CHECKS = {
    "C01": dict(
        technique="property-based testing (Hypothesis): constructed histories x methods x schedules; validity-predicate oracle replaying remaining lot balances with the method's primary ranking key + end-to-end tier (files -> CLI -> report cells -> same predicate)",
        text="Generated-input search over valid single-asset histories (ties, partial lots, income events, method changes, mixed offsets) against a ranking predicate computed from the input rows; finds ordering defects such as the HIFO/LOFO heap bug (F1) within seconds. Search, not proof: absence is not established. Second tier, same predicate: generated multi-asset files through the real console entry point, figures read back from rp2_full_report.ods with no rp2 code in the checking process. One case in sixty is a long 'drip' history (70-160 small disposals from 2-4 lots).",
        note="Trusts CPython fractions/decimal, Hypothesis, and the 60-line predicate in rp2v/checks/c01.py; ties in the primary key are not judged; rp2 driven in-process through its public API (editable install of /repo/src).",
        design="DESIGN.md section 4 / C01",
    ),
    "C02": dict(
        technique="property-based testing (Hypothesis): valid, over-spending and fully-liquidating history variants; iff-verdict + coverage predicate from the input rows + end-to-end tier (files -> CLI -> report cells -> same predicate)",
        text="Generated histories incl. dust/transient over-spends and full liquidations; oracle = per-event exact coverage, per-lot no-overspend, no-lot-from-the-future and an order-independent accept/reject verdict computed from the rows. Second tier, same predicate: generated multi-asset files through the real console entry point, figures read back from rp2_full_report.ods with no rp2 code in the checking process.",
        note="allow_negative_balances=True isolates the matcher's guard; amounts <= 11 decimals; optional crypto_out_with_fee consistent when present (R4).",
        design="DESIGN.md section 4 / C02",
    ),
    "C03": dict(
        technique="property-based testing (Hypothesis): histories cycling through all 14 transaction types; expected taxable set derived from the rows vs taxable_event_set and per-event fraction coverage + end-to-end tier (files -> CLI -> report cells -> same predicate)",
        text="Generated histories over all types/tables; oracle = set equality of taxable events by row plus per-event shape (income: one lot-less full-amount zero-basis fraction at its fiat value; out: amount+fee; transfer: fee only, type MOVE). Second tier, same predicate: generated multi-asset files through the real console entry point, figures read back from rp2_full_report.ods with no rp2 code in the checking process.",
        note="For an income row with a fee either fiat_in_no_fee or fiat_in_with_fee is accepted as 'its fiat value'; histories valid by construction.",
        design="DESIGN.md section 4 / C03",
    ),
    "C04": dict(
        technique="property-based testing (Hypothesis) against an exact rational (fractions.Fraction) reference model with a 1e-15 relative bound, plus a runtime Decimal->float conversion monitor + end-to-end tier (files -> CLI -> report cells -> same predicate)",
        text="Wide-range numerics (1e-11..1e9 units, prices 1e-8..1e7, supplied fiat columns) compared per fraction and re-assembled per event / per fully consumed lot against exact arithmetic; largest observed relative error is reported (about 1e-30). Second tier, same predicate: generated multi-asset files through the real console entry point, figures read back from rp2_full_report.ods with no rp2 code in the checking process.",
        note="Monitor wraps RP2Decimal.__float__ from outside the package; supplied fiat values > 0 (except the fiat value of a disposal's crypto fee, also supplied as exactly 0) and crypto_out_with_fee consistent (R4).",
        design="DESIGN.md section 4 / C04",
    ),
    "C05": dict(
        technique="exhaustive boundary grid (11k points: instants x offset pairs x +-1us/1s around the threshold x all country plugins / generic periods) + Hypothesis-generated multi-lot disposals; integer-microsecond oracle + end-to-end tier (files -> CLI -> report cells -> same predicate)",
        text="The grid part enumerates its finite sub-domain completely (grid_exhaustive=true); the generated part covers multi-lot disposals with lots on both sides of the threshold, income events and random offsets. Second tier, same predicate: generated multi-asset files through the real console entry point, figures read back from rp2_full_report.ods with no rp2 code in the checking process. The yearly summary is judged as well: per (year, type) the crypto amount filed under LONG / SHORT must equal the total of the fractions that the two timestamps make long- / short-term; every disposal type (OUT/STAKING included) and every earn type is drawn; UTC offsets with minutes on both sides of zero.",
        note="Periods that cannot be reached before year 9999 (10^9 days, JP/IE) are exercised as 'never'; generic plugin built under a patched environment.",
        design="DESIGN.md section 4 / C05",
    ),
    "C06": dict(
        technique="property-based testing (Hypothesis): independent re-summation of detail fractions by (own local year, asset, type, long) vs yearly_gain_loss_list, with to-date and from-date + end-to-end tier (files -> CLI -> report cells -> same predicate)",
        text="Multi-year histories with mixed long/short sales and local-year != UTC-year instants; map equality (no duplicate, no empty line), four sums per line, grand totals, from-year restriction. Second tier, same predicate: generated multi-asset files through the real console entry point, figures read back from rp2_full_report.ods with no rp2 code in the checking process - the 'Gain / Loss Summary' table of each asset's Tax sheet and the asset's lines on the 'Summary' sheet, both against the re-summed detail rows.",
        note="Date-monotone histories (R3); sums compared to 1e-25 relative; the detail itself is tied to the input by C01-C05.",
        design="DESIGN.md section 4 / C06",
    ),
    "C07": dict(
        technique="property-based testing (Hypothesis): per-account flow model from the rows vs balance_set, plus reconciliation sum(final) = lots - consumed + end-to-end tier (files -> CLI -> report cells -> same predicate)",
        text="Multi-account (joint filing) histories with transfers incl. to-self, to-date cuts and, with -n, injected overdrafts; exact equality of acquired/sent/received/final per account and of the reconciliation identity. Second tier, same predicate: generated multi-asset files through the real console entry point, figures read back from rp2_full_report.ods with no rp2 code in the checking process. The balances are reconciled a second time through the sold percentages of the acquisitions (API and the report's Sent/Sold column), and a from-date must not change a single balance figure. With -n, debits are also moved to an account that nothing funds (the unrecorded-transfer scenario).",
        note="Per-holder totals are a report-level figure (C13); whole-holding over-spends are C02's subject and skipped.",
        design="DESIGN.md section 4 / C07",
    ),
    "C08": dict(
        technique="property-based testing (Hypothesis) with injected overdrafts (dust..large, transient, permuted row order, same-instant mixes incl. deposit+sale with one timestamp) against an order-independent verdict from the rows + end-to-end tier (files -> CLI with windows and -n -> exit status, output directory, report balances)",
        text="Verdict computed from the rows, independent of the order inside an instant: must-reject (an account ends an instant below -1e-10), must-accept (balance as a function of time never negative, also when a debit is covered by a transfer credited at the same instant), undecided (tolerance band). Rejected runs must raise RP2ValueError naming an overdrawn account and write no report; with -n the negative final balance must be reported. Second tier: files through the real CLI with any -f/-t window, with and without -n, half with an injected overdraft. One listed known finding (F12: same-timestamp transfer chain accepted or rejected depending on row order) is matched by signature.",
        note="Tolerance band [-1e-10,0) is not asserted (counted as ambiguous_skipped); whole-holding over-spends are C02's subject.",
        design="DESIGN.md section 4 / C08",
    ),
    "C09": dict(
        technique="stateful property-based testing (Hypothesis RuleBasedStateMachine growing a history; invariant compares every earlier snapshot) + metamorphic to-date vs truncation relation + end-to-end tier (whole spreadsheet with -t vs truncated spreadsheet; whole vs cut at an instant) with optional sheet-like row renumbering (adding an acquisition shifts every OUT/INTRA row; first rows near 9|10, 99|100), results mapped back before comparison",
        text="Every cut point of every generated growth history is compared (fractions, figures, closed-year totals); the to-date form compares whole ComputedData dumps incl. k/n labels, balances, average price, running sums.",
        note="Cut points between distinct instants; form (b) histories date-monotone (R3).",
        design="DESIGN.md section 4 / C09",
    ),
    "C10": dict(
        technique="metamorphic property-based testing (Hypothesis): unfiltered vs to-date-only vs from+to runs of the same history; independent recount of k/n labels + end-to-end tier (two CLI runs per case, window vs none, -m or [accounting_methods])",
        text="Windows on/around/between transaction dates, empty windows, from==to; identical figures for shown fractions, exact window membership of transactions, balances/average price/labels as of the to-date, yearly lines from the from-year. One listed known finding (F7, non-monotone local dates) is matched by signature. Second tier: the console entry point run with and without the window on the same files; windowed detail rows must be the unfiltered rows dated in the window, figure by figure. The average price is also compared with an independent value (cost incl. fees of everything acquired up to the to-date / amount acquired), and the to-date run's yearly lines with sums over the unfiltered fractions dated up to the to-date. Sub-generators: same-instant twins with two own dates; dozens of fractions with one timestamp and the window starting that day.",
        note="Date-monotone histories (R3) except in the sub-generator aimed at F7; sold-percentage is judged by C13.",
        design="DESIGN.md section 4 / C10",
    ),
    "C11": dict(
        technique="property-based testing (Hypothesis): random injective column layouts, junk columns, permuted tables, blank rows, several sheets; parse_ods output compared field by field with the generated rows",
        text="Generated config/spreadsheet pairs parsed in-process (Configuration + open_ods + parse_ods); every field incl. instant and offset, documented defaults, ids = sheet rows, counts, and the crypto-fee split are compared with the generated rows.",
        note="Inputs are written with ezodf (one sample per shard cross-checked against raw content.xml); numbers = the cell's double rounded to 11 decimals; column 0 mandatory (R9).",
        design="DESIGN.md section 4 / C11",
    ),
    "C12": dict(
        category="fault_enumeration",
        technique="fault injection driven by Hypothesis: one fault from a ~110-class catalogue at a generated applicable position of a generated valid input; fail-closed predicate on real CLI runs",
        text="Each case is one real run of rp2_<country> on a valid base input (several flavours: mixed, buy-only, income-only, transfer-heavy) with exactly one documented fault; fault classes are weighted by their number of applicable positions; oracle = non-zero exit AND error text AND no report written. Fault classes hit are listed in the evidence; a sixth of the cases also verify that the fault-free base is accepted. A third of the row / structure / config faults are run with a -f / -t window as well (a fault in a row outside the window is still a fault). Base inputs carry exchange-supplied fiat values (zero price / zero amount faults on such rows, and a zero or negative supplied value itself, are classes of their own); unknown names include configured names padded with white space.",
        note="Faults only in data rows; R5/R6 ambiguities are not injected; which message is printed is not asserted.",
        design="DESIGN.md section 4 / C12",
    ),
    "C16": dict(
        technique="property-based testing (Hypothesis) of CLI totality over the option matrix country x method/schedule x language x window x -n x -a x -p crossed with generated valid inputs; crash bucketing by innermost rp2 frame",
        text="Each case is one real run in a fresh process; oracle = exit 0, no traceback, every configured report written under the expected name and readable. Found and now guards F2, F3, F4, F5, F11 (all fixed). Inputs also carry the volume tail, large holdings and dust, supplied fiat columns, unique ids typed as numbers, two look-alike long asset names, tied fills on rows 9|10 / 99|100, and configurations with the documented `generators` field.",
        note="JP with -f and -t together is a refused combination (R11); schedules start no later than the first year of the history (R10).",
        design="DESIGN.md section 4 / C16",
    ),
    "C18": dict(
        technique="exhaustive ast scan of every rp2 module against a network/process deny-list + Hypothesis-generated CLI runs (valid and faulty inputs) under an interpreter audit hook with input hashing; decoy files outside the output directory, environment switches, half of the runs on faulty inputs",
        text="Static half enumerates the finite set of modules completely; dynamic half judges socket/ssl/http/subprocess/os.exec/fork events, every path opened for writing or renamed/removed/created, import_module calls from rp2 frames, SHA-256 and mtime of the inputs. Look-alike files (report names, .bak) planted in cwd, $HOME and a sibling of the output directory must stay untouched; the output directory may hold nothing but the reports. Decoys also lie inside the output directory (somebody else's reports, a copy of the input), and one scenario makes ./log a regular file with $TMPDIR redirected into the sandbox.",
        note="Audit hooks see interpreter-level events only; third-party dependencies are trusted base.",
        design="DESIGN.md section 4 / C18",
    ),
    "C13": dict(
        technique="property-based testing (Hypothesis) of real CLI runs with read-back of every cell of rp2_full_report.ods (own ODS reader) against ComputedData obtained through the API from the same files, plus independent running sums / sold % / window membership from the generated rows; k/n labels recounted from the fraction list",
        text="Generated multi-asset inputs x methods/schedules x windows x 6 country/language pairs; sheets, legend (method(s), filters), In/Out/Intra tables, summaries, balances with per-holder totals, average price and the gain/loss detail incl. k/n labels are compared cell by cell. A report generator that aborts on a valid input is a violation (the report shows nothing).",
        note="Doubles compared to double precision, hyperlink payload decimals exactly; running sums tie-tolerant; legend 'a->b:' wording not judged.",
        design="DESIGN.md section 4 / C13",
    ),
    "C14": dict(
        technique="property-based testing (Hypothesis) of real rp2_us / rp2_ie runs: multiset equality between the rows of all tax-report sheets and the window's fractions, sheet map taken from the property statement; with a from-date the expected rows are selected by the checker from a run without one",
        text="Inputs cycle through all 14 transaction types with 2-3 assets sharing sheets; every fraction must appear exactly once on exactly the sheet of its type, sheets without rows must be absent, no gaps or overwritten rows. Volume tail: > 95 rows on one sheet from a mix of types; a tax-report generator that aborts on a valid input is a violation.",
        note="Numbers enter the multiset key rounded to 9 significant digits (cells are doubles).",
        design="DESIGN.md section 4 / C14",
    ),
    "C15": dict(
        technique="property-based testing (Hypothesis) of real CLI runs with read-back of open_positions.ods against a conservation-law model (unrealised cost from unconsumed lot parts, balances from the computed balance set)",
        text="Multi-asset, multi-holder inputs incl. fully sold, income-only and buy-only assets and random to-dates; row sets of both sheets, balances, per-unit cost, cost bases adding up to the unrealised cost, weights adding up to 1, realised + unrealised = total cost. Exchange-supplied fiat columns (free to disagree with amount x price) are generated. Balances are taken from the generated rows (not from rp2's balance set) and what was consumed up to the to-date is selected by the checker, by the event's own date, from a run without a to-date; to-dates are also placed between a transaction's own date and its UTC date.",
        note="Sums compared to 1e-12 relative; assets whose unrealised cost is below 1e-12 are not judged (R13).",
        design="DESIGN.md section 4 / C15",
    ),
    "C17": dict(
        technique="metamorphic property-based testing (Hypothesis) on real CLI runs: hash-seed invariance, row/table/sheet permutation invariance, asset-subset invariance, plus a stateful RuleBasedStateMachine over one output directory; files left in the output directory besides the reports are compared as well; a failure that does not reproduce on the identical case is reported (nondeterminism)",
        text="content.xml of every report is compared byte for byte between the related runs; asset-subset relation compares parsed cells of the asset's sheets/rows; API dumps keyed by unique id are compared as well.",
        note="Permutation relation only for inputs with pairwise distinct instants; meta.xml (creation date) is not compared.",
        design="DESIGN.md section 4 / C17",
    ),
    "C19": dict(
        technique="property-based testing (Hypothesis) of real CLI runs: every HYPERLINK formula of the Tax and Summary sheets is resolved and the target row compared (unique id, timestamp, table direction); hidden transactions must be unlinked",
        text="Inputs biased to several assets sharing sheet row numbers, shuffled rows and from-dates hiding consumed lots; found and now guards F6 (fixed). The asset's sheets must be addressable (exactly one sheet of each expected name; duplicate names are visible to the reader) before any link is judged; large holdings that give up a sliver only (sold percentage below rp2's resolution) are generated on purpose.",
        note="Unique ids are distinct per spreadsheet row; artificial fee rows are told apart by table.",
        design="DESIGN.md section 4 / C19",
    ),
    "C20": dict(
        technique="property-based testing (Hypothesis) of real rp2_jp runs with read-back of sheet names, transaction rows and cross-sheet formula text of tax_report_jp.ods",
        text="Sparse / non-consecutive years, years first met out of order across tables, disposal-only years, -g en / kl / default; exact sheet set, per-year transaction rows (multiset + time order), opening-balance chain to the greatest earlier year recognised through the closing cells' own formulas, summary lines. Found and now guards F8 (fixed). Summary lines must point at the result cells (average price, closing balances, net income) recognised on the asset-year sheet by their own formulas. A flavour places entries of different time zones within an hour of New Year (own years Y, Y-1, Y along the time axis); duplicate sheet names are visible to the check.",
        note="yen = amount x spot price in this generator; DONATE yen cell (formatted text) and fee-less transfers not judged; values below 1e-12 are dust (R13).",
        design="DESIGN.md section 4 / C20",
    ),
}

NOT_APPLICABLE = []


def main() -> None:
    all_ids = [json.loads(line)["id"] for line in open(os.path.join(VERIF, "properties.jsonl"), encoding="utf-8") if line.strip()]
    checks = []
    for cid in all_ids:
        if cid not in CHECKS:
            continue
        meta = CHECKS[cid]
        checks.append(
            {
                "property_id": cid,
                "quick_cmd": f"./check {cid} --tier quick",
                "thorough_cmd": f"./check {cid} --tier thorough",
                "evidence_file": f"/verif/evidence/{cid}.json",
                "replay_cmd_template": f"./check {cid} --replay {{path}}",
                "engine": "rp2v",
                "level_claimed": {"category": meta.get("category", "exploration"), "text": meta["text"], "design_ref": meta["design"]},
                "level_note": meta["note"],
                "technique": meta["technique"],
            }
        )
    pending = [cid for cid in all_ids if cid not in CHECKS and cid not in {n["property_id"] for n in NOT_APPLICABLE}]
    not_applicable = list(NOT_APPLICABLE) + [
        {"property_id": cid, "reason": "check designed (DESIGN.md section 4) but not yet registered in this commit; not claimed until its check is committed"} for cid in pending
    ]
    manifest = {
        "version": 1,
        "setup_cmd": "/venv/bin/python tools/setup_check.py",
        "hooks": {
            "guard": "RP2_VERIF",
            "enable": "no source hooks are needed: monitors (float shim, audit hook) are installed from outside the package; the guard name is reserved and unused",
            "baseline_off_cmd": "/verif/tools/baseline.sh",
            "source_commits": [],
            "add_only": True,
        },
        "engines": [
            {
                "name": "rp2v",
                "path": "/verif/rp2v",
                "serves_properties": [c["property_id"] for c in checks],
                "kind_free_text": "Hypothesis-based property testing harness (sharded over 16 processes) with an exact-arithmetic reference model, API and CLI drivers, ODS reader/writer, replay files and known-findings handling",
            }
        ],
        "checks": checks,
        "notes": "Every check: exit 0 = held on everything explored (KNOWN-FINDING lines for listed findings), exit 1 + VIOLATION line, exit 2 = harness error. VERIF_SEED seeds every shard (Hypothesis @seed, database=None).",
        "not_applicable": not_applicable,
    }
    with open(os.path.join(VERIF, "MANIFEST.json"), "w", encoding="utf-8") as handle:
        json.dump(manifest, handle, indent=1)
        handle.write("\n")
    print(f"MANIFEST.json: {len(checks)} checks, {len(not_applicable)} not claimed")


if __name__ == "__main__":
    main()
