#!/venv/bin/python
"""Regenerates /verif/MANIFEST.json from the table below (one entry per property that has a registered check)."""
import json
import os

VERIF = os.path.dirname(os.path.dirname(os.path.abspath(__file__)))

CHECKS = {
    "C01": dict(
        technique="property-based testing (Hypothesis): constructed histories x methods x schedules; validity-predicate oracle replaying remaining lot balances with the method's primary ranking key",
        text="Generated-input search over valid single-asset histories (ties, partial lots, income events, method changes, mixed offsets) against a ranking predicate computed from the input rows; finds ordering defects such as the HIFO/LOFO heap bug (F1) within seconds. Search, not proof: absence is not established.",
        note="Trusts CPython fractions/decimal, Hypothesis, and the 60-line predicate in rp2v/checks/c01.py; ties in the primary key are not judged; rp2 driven in-process through its public API (editable install of /repo/src).",
        design="DESIGN.md section 4 / C01",
    ),
    "C02": dict(
        technique="property-based testing (Hypothesis): valid, over-spending and fully-liquidating history variants; iff-verdict + coverage predicate from the input rows",
        text="Generated histories incl. dust/transient over-spends and full liquidations; oracle = per-event exact coverage, per-lot no-overspend, no-lot-from-the-future and an order-independent accept/reject verdict computed from the rows.",
        note="allow_negative_balances=True isolates the matcher's guard; amounts <= 11 decimals; optional crypto_out_with_fee consistent when present (R4).",
        design="DESIGN.md section 4 / C02",
    ),
}

NOT_APPLICABLE = []


def main() -> None:
    all_ids = [json.loads(line)["id"] for line in open(os.path.join(VERIF, "properties.jsonl"), encoding="utf-8") if line.strip()]
    checks = []
    for cid in all_ids:
        if cid not in CHECKS:
            continue
        meta = CHECKS[cid]
        checks.append(
            {
                "property_id": cid,
                "quick_cmd": f"./check {cid} --tier quick",
                "thorough_cmd": f"./check {cid} --tier thorough",
                "evidence_file": f"/verif/evidence/{cid}.json",
                "replay_cmd_template": f"./check {cid} --replay {{path}}",
                "engine": "rp2v",
                "level_claimed": {"category": meta.get("category", "exploration"), "text": meta["text"], "design_ref": meta["design"]},
                "level_note": meta["note"],
                "technique": meta["technique"],
            }
        )
    pending = [cid for cid in all_ids if cid not in CHECKS and cid not in {n["property_id"] for n in NOT_APPLICABLE}]
    not_applicable = list(NOT_APPLICABLE) + [
        {"property_id": cid, "reason": "check designed (DESIGN.md section 4) but not yet registered in this commit; not claimed until its check is committed"} for cid in pending
    ]
    manifest = {
        "version": 1,
        "setup_cmd": "/venv/bin/python tools/setup_check.py",
        "hooks": {
            "guard": "RP2_VERIF",
            "enable": "no source hooks are needed: monitors (float shim, audit hook) are installed from outside the package; the guard name is reserved and unused",
            "baseline_off_cmd": "/verif/tools/baseline.sh",
            "source_commits": [],
            "add_only": True,
        },
        "engines": [
            {
                "name": "rp2v",
                "path": "/verif/rp2v",
                "serves_properties": [c["property_id"] for c in checks],
                "kind_free_text": "Hypothesis-based property testing harness (sharded over 16 processes) with an exact-arithmetic reference model, API and CLI drivers, ODS reader/writer, replay files and known-findings handling",
            }
        ],
        "checks": checks,
        "notes": "Every check: exit 0 = held on everything explored (KNOWN-FINDING lines for listed findings), exit 1 + VIOLATION line, exit 2 = harness error. VERIF_SEED seeds every shard (Hypothesis @seed, database=None).",
        "not_applicable": not_applicable,
    }
    with open(os.path.join(VERIF, "MANIFEST.json"), "w", encoding="utf-8") as handle:
        json.dump(manifest, handle, indent=1)
        handle.write("\n")
    print(f"MANIFEST.json: {len(checks)} checks, {len(not_applicable)} not claimed")


if __name__ == "__main__":
    main()
