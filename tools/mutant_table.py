"""Mutations used by the sensitivity protocol (tools/mutants.py).  Each entry: checks expected to fail, description, and a
list of (file relative to src/rp2, exact old text occurring once, new text)."""

MUTANTS = {}


def m(name, checks, desc, *edits, prop=None):
    MUTANTS[name] = {"checks": checks, "desc": desc, "edits": list(edits), "property": prop or checks[0]}


# ---------------------------------------------------------------- C01
m(
    "c01_hifo_sign",
    ["C01"],
    "HIFO sort key sign flipped (becomes LOFO)",
    ("plugin/accounting_method/hifo.py", "AcquiredLotSortKey(-lot.spot_price,", "AcquiredLotSortKey(lot.spot_price,"),
)
m(
    "c01_lifo_plus_timestamp",
    ["C01"],
    "LIFO key on +timestamp (becomes FIFO)",
    ("plugin/accounting_method/lifo.py", "AcquiredLotSortKey(ZERO, -lot.timestamp.timestamp(), -lot.row)", "AcquiredLotSortKey(ZERO, lot.timestamp.timestamp(), -lot.row)"),
)
m(
    "c01_no_reseek_on_time_advance",
    ["C01"],
    "drop the re-seek when the taxable event's timestamp advances",
    ("accounting_engine.py", "if taxable_event and taxable_event.timestamp < new_taxable_event.timestamp:", "if False and taxable_event and taxable_event.timestamp < new_taxable_event.timestamp:"),
)
m(
    "c01_disambiguator_zero",
    ["C01", "C02"],
    "MAX_KEY_DISAMBIGUATOR all zeros: same-instant lots excluded from the candidates",
    ("accounting_engine.py", 'MAX_KEY_DISAMBIGUATOR = "9" * KEY_DISAMBIGUATOR_LENGTH', 'MAX_KEY_DISAMBIGUATOR = "0" * KEY_DISAMBIGUATOR_LENGTH'),
)
m(
    "c01_from_index_skips_one_more",
    ["C01", "C02"],
    "FIFO from_index advanced by 2 (skips a non-exhausted lot)",
    ("abstract_accounting_method.py", "lot_candidates.set_from_index(lot_candidates.from_index + 1)", "lot_candidates.set_from_index(lot_candidates.from_index + 2)"),
)
m(
    "c01_schedule_by_utc_year",
    ["C01"],
    "accounting schedule looked up with the UTC year instead of the event's own year",
    (
        "accounting_engine.py",
        "method = self._get_accounting_method(taxable_event.timestamp.year)\n            lot_candidates: Optional[AbstractAcquiredLotCandidates] = self.__years_2_lot_candidates.find_max_value_less_than(taxable_event.timestamp.year)",
        "method = self._get_accounting_method(taxable_event.timestamp.astimezone(timezone.utc).year)\n            lot_candidates: Optional[AbstractAcquiredLotCandidates] = self.__years_2_lot_candidates.find_max_value_less_than(taxable_event.timestamp.astimezone(timezone.utc).year)",
    ),
)
m(
    "c01_f1_reintroduced",
    ["C01", "C02"],
    "pre-fix behaviour of F1: conditional re-push of the selected lot",
    (
        "abstract_accounting_method.py",
        "            self.add_selected_lot_to_heap(lot_candidates.acquired_lot_heap, selected_acquired_lot)\n            return AcquiredLotAndAmount",
        "            if selected_acquired_lot_amount > taxable_event_amount:\n                self.add_selected_lot_to_heap(lot_candidates.acquired_lot_heap, selected_acquired_lot)\n            return AcquiredLotAndAmount",
    ),
)
# ---------------------------------------------------------------- C02
m(
    "c02_gt_branch_emits_event_amount",
    ["C02"],
    "taxable > acquired branch emits the event amount instead of the lot amount",
    ("tax_engine.py", "gain_loss = GainLoss(configuration, acquired_lot_amount, taxable_event, acquired_lot)", "gain_loss = GainLoss(configuration, taxable_event_amount, taxable_event, acquired_lot)"),
)
m(
    "c02_swallow_lots_exhausted",
    ["C02"],
    "AcquiredLotsExhaustedException swallowed (figures produced for an uncovered disposal)",
    ("tax_engine.py", '        raise RP2ValueError("Total in-transaction crypto value < total taxable crypto value") from None', "        pass"),
)
m(
    "c02_to_index_minus_one",
    ["C02", "C01"],
    "candidate upper bound one lot short",
    ("accounting_engine.py", "lot_candidates.set_to_index(acquired_lot_and_index.index)", "lot_candidates.set_to_index(max(0, acquired_lot_and_index.index - 1))"),
)
m(
    "c02_lot_amount_not_reduced",
    ["C02"],
    "remaining lot amount not reduced when moving to the next event",
    (
        "accounting_engine.py",
        "new_acquired_lot_amount: RP2Decimal = acquired_lot_amount - taxable_event_amount if acquired_lot is not None else ZERO",
        "new_acquired_lot_amount: RP2Decimal = acquired_lot_amount if acquired_lot is not None else ZERO",
    ),
)
# ---------------------------------------------------------------- C03
m(
    "c03_wages_not_earn",
    ["C03"],
    "WAGES removed from the earn-type set",
    ("entry_types.py", "    TransactionType.STAKING,\n    TransactionType.WAGES,\n}", "    TransactionType.STAKING,\n}"),
)
m(
    "c03_intra_always_taxable",
    ["C03"],
    "IntraTransaction.is_taxable() always True",
    ("intra_transaction.py", "        return self.crypto_fee > ZERO\n", "        return True\n"),
)
m(
    "c03_intra_set_not_merged",
    ["C03", "C02"],
    "intra set dropped from the taxable-event merge",
    ("tax_engine.py", "        input_data.unfiltered_out_transaction_set,\n        input_data.unfiltered_intra_transaction_set,\n    ]:", "        input_data.unfiltered_out_transaction_set,\n    ]:"),
)
m(
    "c03_transfer_balance_change_is_sent",
    ["C03", "C02"],
    "crypto_balance_change of a transfer returns crypto_sent instead of the fee",
    ("intra_transaction.py", "    def crypto_balance_change(self) -> RP2Decimal:\n        return self.crypto_fee", "    def crypto_balance_change(self) -> RP2Decimal:\n        return self.crypto_sent"),
)
m(
    "c03_f9_reintroduced",
    ["C03", "C02"],
    "pre-fix behaviour of F9: transfer taxable iff fiat fee > 0 at 13 decimals",
    ("intra_transaction.py", "        return self.crypto_fee > ZERO\n", "        return self.fiat_fee > ZERO\n"),
)
# ---------------------------------------------------------------- C04
m(
    "c04_basis_without_fee",
    ["C04"],
    "cost basis from fiat_in_no_fee",
    (
        "gain_loss.py",
        "        # with small percentages.\n        return (self.acquired_lot.fiat_in_with_fee * self.crypto_amount) / self.acquired_lot.crypto_balance_change",
        "        # with small percentages.\n        return (self.acquired_lot.fiat_in_no_fee * self.crypto_amount) / self.acquired_lot.crypto_balance_change",
    ),
)
m(
    "c04_proceeds_include_fee",
    ["C04"],
    "out-transaction taxable fiat amount includes the fee",
    ("out_transaction.py", "            return self.fiat_fee\n        return self.fiat_out_no_fee", "            return self.fiat_fee\n        return self.fiat_out_with_fee"),
)
m(
    "c04_rounded_percentage",
    ["C04"],
    "proceeds multiplied by a percentage quantised to 8 places",
    (
        "gain_loss.py",
        "        return (self.taxable_event.fiat_taxable_amount * self.crypto_amount) / self.taxable_event.crypto_balance_change",
        "        return self.taxable_event.fiat_taxable_amount * RP2Decimal(str(round(self.taxable_event_fraction_percentage, 8)))",
    ),
)
m(
    "c04_float_multiplication",
    ["C04"],
    "cost basis computed through binary floats",
    (
        "gain_loss.py",
        "        # with small percentages.\n        return (self.acquired_lot.fiat_in_with_fee * self.crypto_amount) / self.acquired_lot.crypto_balance_change",
        "        # with small percentages.\n        return RP2Decimal(str(float(self.acquired_lot.fiat_in_with_fee) * float(self.crypto_amount))) / self.acquired_lot.crypto_balance_change",
    ),
)
m(
    "c04_supplied_fiat_out_ignored",
    ["C04"],
    "exchange-supplied fiat_out_no_fee ignored",
    ("out_transaction.py", "        if fiat_out_no_fee is None:\n", "        if True:\n"),
)
# ---------------------------------------------------------------- C05
m(
    "c05_gt_instead_of_ge",
    ["C05"],
    "holding period compared with > instead of >=",
    ("gain_loss.py", "timestamp).days >= self.configuration.country.get_long_term_capital_gain_period()", "timestamp).days > self.configuration.country.get_long_term_capital_gain_period()"),
)
m(
    "c05_date_difference",
    ["C05"],
    "holding period from calendar dates instead of instants",
    (
        "gain_loss.py",
        "return (self.taxable_event.timestamp - self.acquired_lot.timestamp).days >=",
        "return (self.taxable_event.timestamp.date() - self.acquired_lot.timestamp.date()).days >=",
    ),
)
m(
    "c05_naive_subtraction",
    ["C05"],
    "time zones dropped before subtracting",
    (
        "gain_loss.py",
        "return (self.taxable_event.timestamp - self.acquired_lot.timestamp).days >=",
        "return (self.taxable_event.timestamp.replace(tzinfo=None) - self.acquired_lot.timestamp.replace(tzinfo=None)).days >=",
    ),
)
m("c05_jp_365", ["C05"], "JP returns a 365-day period", ("plugin/country/jp.py", "        return sys.maxsize", "        return 365"))
m(
    "c05_generic_ignores_env",
    ["C05"],
    "generic plugin ignores LONG_TERM_CAPITAL_GAINS",
    ("plugin/country/generic.py", "        return self.__long_term_capital_gain_period", "        return 365"),
)
# ---------------------------------------------------------------- C06
m(
    "c06_year_from_lot",
    ["C06"],
    "yearly key uses the lot's year",
    (
        "computed_data.py",
        "                gain_loss.taxable_event.timestamp.year,\n                gain_loss.asset,",
        "                (gain_loss.acquired_lot.timestamp.year if gain_loss.acquired_lot else gain_loss.taxable_event.timestamp.year),\n                gain_loss.asset,",
    ),
)
m(
    "c06_key_without_long",
    ["C06"],
    "yearly key ignores long/short",
    ("computed_data.py", "                gain_loss.is_long_term_capital_gains(),\n            )\n            value = summaries", "                False,\n            )\n            value = summaries"),
)
m(
    "c06_basis_into_proceeds",
    ["C06"],
    "cost basis summed into the proceeds column",
    ("computed_data.py", "fiat_amount: RP2Decimal = value.fiat_amount + gain_loss.taxable_event_fiat_amount_with_fee_fraction", "fiat_amount: RP2Decimal = value.fiat_amount + gain_loss.fiat_cost_basis"),
)
m(
    "c06_to_date_exclusive",
    ["C06"],
    "yearly list drops the entries dated on the to-date",
    ("computed_data.py", "            if gain_loss.taxable_event.timestamp.date() > to_date:\n                break\n            key = _YearlyGainLossId(", "            if gain_loss.taxable_event.timestamp.date() >= to_date:\n                break\n            key = _YearlyGainLossId("),
)
# ---------------------------------------------------------------- C07
m(
    "c07_sent_without_fee",
    ["C07"],
    "sent balance of an out-transaction without the fee",
    (
        "balance.py",
        "sent_balances[from_account] = sent_balances.get(from_account, ZERO) + out_transaction.crypto_out_no_fee + out_transaction.crypto_fee",
        "sent_balances[from_account] = sent_balances.get(from_account, ZERO) + out_transaction.crypto_out_no_fee",
    ),
)
m(
    "c07_received_is_sent",
    ["C07"],
    "destination credited with crypto_sent",
    (
        "balance.py",
        "final_balances[to_account] = final_balances.get(to_account, ZERO) + intra_transaction.crypto_received",
        "final_balances[to_account] = final_balances.get(to_account, ZERO) + intra_transaction.crypto_sent",
    ),
)
m(
    "c07_to_date_exclusive",
    ["C07", "C09"],
    "balances stop before the to-date",
    ("balance.py", "            if transaction.timestamp.date() > to_date:", "            if transaction.timestamp.date() >= to_date:"),
)
m(
    "c07_account_by_exchange_only",
    ["C07"],
    "in-transactions credited to an account keyed by exchange only (first holder)",
    ("balance.py", "                to_account = Account(in_transaction.exchange, in_transaction.holder)", "                to_account = Account(in_transaction.exchange, sorted([in_transaction.holder, 'Bob'])[-1])"),
)
# ---------------------------------------------------------------- C08
m(
    "c08_tolerance_mask_2_decimals",
    ["C08"],
    "overdraft tolerance mask 1.00",
    ("balance.py", 'CRYPTO_BALANCE_DECIMAL_MASK: Decimal = Decimal("1." + "0" * 10)', 'CRYPTO_BALANCE_DECIMAL_MASK: Decimal = Decimal("1." + "0" * 2)'),
)
m(
    "c08_no_check_on_transfers",
    ["C08"],
    "no overdraft check after a transfer debit",
    (
        "balance.py",
        "                    and not configuration.allow_negative_balances\n                ):\n                    raise RP2ValueError(\n                        f'{intra_transaction.asset}",
        "                    and not configuration.allow_negative_balances\n                    and False\n                ):\n                    raise RP2ValueError(\n                        f'{intra_transaction.asset}",
    ),
)
m(
    "c08_n_switch_ignored",
    ["C08"],
    "allow_negative_balances ignored for out-transactions",
    (
        "balance.py",
        "                    and not configuration.allow_negative_balances\n                ):\n                    raise RP2ValueError(\n                        f'{out_transaction.asset}",
        "                ):\n                    raise RP2ValueError(\n                        f'{out_transaction.asset}",
    ),
)
m(
    "c08_row_order_replay",
    ["C08"],
    "balances replayed in sheet-row order instead of time order",
    ("balance.py", "def _transaction_time_sort_key(transaction: AbstractEntry) -> datetime:\n    return transaction.timestamp", "def _transaction_time_sort_key(transaction: AbstractEntry) -> int:\n    return transaction.row  # type: ignore"),
)
# ---------------------------------------------------------------- C09
m(
    "c09_candidates_one_day_ahead",
    ["C09", "C02"],
    "candidate upper bound looks one day past the disposal",
    (
        "accounting_engine.py",
        "            self._get_avl_node_key_with_max_disambiguator(taxable_event.timestamp)\n",
        "            self._get_avl_node_key_with_max_disambiguator(taxable_event.timestamp + __import__('datetime').timedelta(days=1))\n",
    ),
)
m(
    "c09_heap_prefilled",
    ["C09", "C02"],
    "feature heap filled with all lots regardless of the disposal time",
    ("abstract_accounting_method.py", "        for i in range(self.to_index, to_index + 1):", "        for i in range(self.to_index, len(self.acquired_lot_list)):"),
)
m(
    "c09_to_index_plus_one",
    ["C09", "C02"],
    "candidate upper bound one lot too far",
    ("accounting_engine.py", "lot_candidates.set_to_index(acquired_lot_and_index.index)", "lot_candidates.set_to_index(min(acquired_lot_and_index.index + 1, len(self._AccountingEngine__acquired_lot_list) - 1))"),
)
m(
    "c09_fraction_numbering_ignores_to_date",
    ["C09", "C10"],
    "fraction numbering does not stop at the to-date",
    ("gain_loss_set.py", "            if gain_loss.timestamp.date() > self.to_date:\n                break", "            if False and gain_loss.timestamp.date() > self.to_date:\n                break"),
)
# ---------------------------------------------------------------- C10
m(
    "c10_from_date_exclusive",
    ["C10"],
    "iterator uses > at the from-date",
    ("abstract_entry_set.py", "            if result.timestamp.date() >= self.__entry_set.from_date:", "            if result.timestamp.date() > self.__entry_set.from_date:"),
)
m(
    "c10_to_date_exclusive",
    ["C10", "C09"],
    "iterator uses >= at the to-date",
    ("abstract_entry_set.py", "            if result.timestamp.date() > self.__entry_set.to_date:", "            if result.timestamp.date() >= self.__entry_set.to_date:"),
)
m(
    "c10_matching_from_window_start",
    ["C10"],
    "lot matching starts from the window (filtered in-set fed to the matcher)",
    (
        "tax_engine.py",
        "iter(cast(Iterable[InTransaction], input_data.unfiltered_in_transaction_set))",
        "iter(cast(Iterable[InTransaction], input_data.filtered_in_transaction_set if not input_data.filtered_in_transaction_set.is_empty() and len(list(input_data.filtered_in_transaction_set)) else input_data.unfiltered_in_transaction_set))",
    ),
)
m(
    "c10_yearly_filter_exclusive",
    ["C10", "C06"],
    "yearly lines filtered by > from-year",
    ("computed_data.py", "return [y for y in unfiltered_yearly_gain_loss_list if y.year >= from_year]", "return [y for y in unfiltered_yearly_gain_loss_list if y.year > from_year]"),
)
# ---------------------------------------------------------------- C11
m(
    "c11_swap_in_numeric_fields",
    ["C11"],
    "two numeric fields swapped when building the IN argument pack",
    (
        "ods_parser.py",
        '        argument_pack = _process_constructor_argument_pack(configuration, argument_pack, internal_id, "InTransaction")\n',
        '        argument_pack = _process_constructor_argument_pack(configuration, argument_pack, internal_id, "InTransaction")\n        if argument_pack.get("fiat_in_no_fee") is not None and argument_pack.get("fiat_in_with_fee") is not None:\n            argument_pack["fiat_in_no_fee"], argument_pack["fiat_in_with_fee"] = argument_pack["fiat_in_with_fee"], argument_pack["fiat_in_no_fee"]\n',
    ),
)
m("c11_eight_decimals", ["C11"], "numbers taken with 8 decimals", ("ods_parser.py", 'RP2Decimal(f"{value:.11f}")', 'RP2Decimal(f"{value:.8f}")'))
m(
    "c11_artificial_fee_from_crypto_in",
    ["C11"],
    "artificial fee transaction built from crypto_in",
    ("ods_parser.py", "                crypto_out_no_fee=ZERO,\n                crypto_fee=transaction.crypto_fee,", "                crypto_out_no_fee=ZERO,\n                crypto_fee=transaction.crypto_in,"),
)
m(
    "c11_split_drops_supplied_fiat",
    ["C11"],
    "crypto-fee split forgets the exchange-supplied fiat_in_with_fee",
    ("ods_parser.py", "                fiat_in_with_fee=transaction.fiat_in_with_fee,\n                fiat_fee=transaction.fiat_fee,\n                row=internal_id,", "                fiat_in_with_fee=None,\n                fiat_fee=transaction.fiat_fee,\n                row=internal_id,"),
)
m(
    "c11_header_map_off_by_one",
    ["C11"],
    "OUT argument pack reads one column to the right for crypto_fee",
    (
        "configuration.py",
        '        return self.__get_table_constructor_argument_pack(data, "out", self.__out_header)',
        '        pack = self.__get_table_constructor_argument_pack(data, "out", self.__out_header)\n        position = self.__out_header["crypto_fee"]\n        if position + 1 < len(data) and isinstance(data[position + 1], float):\n            pack["crypto_fee"] = data[position + 1]\n        return pack',
    ),
)
m(
    "c11_last_row_skipped",
    ["C11"],
    "a data row directly followed by TABLE END two rows later is skipped (row count off by one)",
    ("ods_parser.py", "        elif current_table_type is not None and current_table_row_count > 1:", "        elif current_table_type is not None and current_table_row_count > 2:"),
)
m(
    "c11_wrong_default_with_fee",
    ["C11"],
    "default fiat_in_with_fee computed without the fee",
    ("in_transaction.py", "            self.__fiat_in_with_fee = self.__fiat_in_no_fee + self.__fiat_fee\n", "            self.__fiat_in_with_fee = self.__fiat_in_no_fee\n"),
)
# ---------------------------------------------------------------- C12
m(
    "c12_bad_rows_skipped",
    ["C12"],
    "rows that fail to parse are skipped instead of aborting",
    (
        "ods_parser.py",
        "            _create_and_process_transaction(configuration, row_values, current_table_type, i + 1, unfiltered_transaction_sets, artificial_transaction_list)\n",
        "            try:\n                _create_and_process_transaction(configuration, row_values, current_table_type, i + 1, unfiltered_transaction_sets, artificial_transaction_list)\n            except Exception:  # pylint: disable=broad-except\n                pass\n",
    ),
)
m(
    "c12_no_price_check",
    ["C12"],
    "zero spot price accepted on out-transactions",
    ("out_transaction.py", "            if spot_price == ZERO:\n                raise RP2ValueError", "            if False and spot_price == ZERO:\n                raise RP2ValueError"),
)
m(
    "c12_received_gt_sent_accepted",
    ["C12"],
    "received > sent accepted",
    ("intra_transaction.py", "        if self.__crypto_sent < self.__crypto_received:", "        if False and self.__crypto_sent < self.__crypto_received:"),
)
m(
    "c12_missing_table_end_accepted",
    ["C12"],
    "missing TABLE END at the end of the sheet accepted",
    ("ods_parser.py", '    if current_table_type is not None:\n        raise RP2ValueError(f"TABLE END not found for {current_table_type} table")', "    if False and current_table_type is not None:\n        raise RP2ValueError(f\"TABLE END not found for {current_table_type} table\")"),
)
m(
    "c12_method_conflict_not_fatal",
    ["C12"],
    "-m together with [accounting_methods] only logs an error",
    ('rp2_main.py', '                "use only one of them."\n            )\n            sys.exit(1)', '                "use only one of them."\n            )'),
)
m(
    "c12_asset_mismatch_accepted",
    ["C12"],
    "entry of another asset accepted by the set",
    ("abstract_entry_set.py", "        if entry.asset != self.asset:", "        if False and entry.asset != self.asset:"),
)
m(
    "c12_reports_inside_asset_loop",
    ["C12"],
    "report generators run inside the asset loop (partial output before the failing asset)",
    (
        "rp2_main.py",
        "            asset_to_computed_data[asset] = computed_data\n",
        "            asset_to_computed_data[asset] = computed_data\n            _find_and_run_report_generators(configuration=configuration, package_paths=[REPORT_GENERATOR_PACKAGE, f\"{REPORT_GENERATOR_PACKAGE}.{country.country_iso_code}\"], args=args, country=country, years_2_accounting_method_names=years_2_accounting_method_names, asset_to_computed_data=asset_to_computed_data, from_date=configuration.from_date, to_date=configuration.to_date)\n",
    ),
)
m(
    "c12_unknown_holder_accepted",
    ["C12"],
    "unknown holder accepted",
    ("configuration.py", "        if value not in self.__holders:", "        if False and value not in self.__holders:"),
)
# ---------------------------------------------------------------- C16
m(
    "c16_f2_reintroduced",
    ["C16"],
    "pre-fix F2: summary hyperlink lookup without guard",
    ("plugin/report/rp2_full_report.py", "        if asset_and_year not in self.__tax_sheet_year_2_row:", "        if False and asset_and_year not in self.__tax_sheet_year_2_row:"),
)
m(
    "c16_template_by_language_only",
    ["C16"],
    "template looked up by language only (country directory dropped)",
    ("plugin/report/abstract_ods_generator.py", '        country_path = f"{country.country_iso_code}/" if country else ""', '        country_path = "us/" if country else ""'),
)
# ---------------------------------------------------------------- C18
m(
    "c18_urlopen_at_import",
    ["C18"],
    "version check over the network at import (wrapped in try/except)",
    ("rp2_main.py", '_VERSION: str = "1.7.2"', '_VERSION: str = "1.7.2"\ntry:\n    import urllib.request\n\n    urllib.request.urlopen("http://127.0.0.1:9/version", timeout=0.2)\nexcept Exception:  # pylint: disable=broad-except\n    pass'),
)
m(
    "c18_subprocess_in_logger",
    ["C18"],
    "logger shells out to uname",
    ("logger.py", 'Path("./log").mkdir(parents=True, exist_ok=True)', 'Path("./log").mkdir(parents=True, exist_ok=True)\nimport subprocess\n\nsubprocess.run(["uname"], capture_output=True, check=False)'),
)
m(
    "c18_cache_file_in_home",
    ["C18"],
    "cache file written to the home directory",
    ("rp2_main.py", "        LOGGER.info(\"Country: %s\", country.country_iso_code)", "        with open(os.path.expanduser(\"~/.rp2_cache\"), \"a\", encoding=\"utf-8\") as _cache:\n            _cache.write(\"x\")\n        LOGGER.info(\"Country: %s\", country.country_iso_code)"),
)
m(
    "c18_input_opened_rw",
    ["C18"],
    "input spreadsheet opened r+ before parsing",
    ("ods_parser.py", "    return ezodf.opendoc(input_file_path)", "    with open(input_file_path, \"r+b\"):\n        pass\n    return ezodf.opendoc(input_file_path)"),
)
m(
    "c18_socket_via_dunder_import",
    ["C18"],
    "host name resolved through __import__('socket') at run time",
    ("rp2_main.py", "        LOGGER.info(\"Generation Language: %s\", args.generation_language)", "        try:\n            __import__(\"socket\").gethostbyname(\"localhost\")\n        except Exception:  # pylint: disable=broad-except\n            pass\n        LOGGER.info(\"Generation Language: %s\", args.generation_language)"),
)

# ---------------------------------------------------------------- C13
m(
    "c13_out_columns_swapped",
    ["C13"],
    "Out-Flow table: crypto-out and crypto-fee columns swapped",
    (
        "plugin/report/rp2_full_report.py",
        "self._fill_cell(sheet, row_index, 7, transaction.crypto_out_no_fee, visual_style=visual_style, data_style=\"crypto\")\n            self._fill_cell(sheet, row_index, 8, transaction.crypto_fee, visual_style=visual_style, data_style=\"crypto\")",
        "self._fill_cell(sheet, row_index, 8, transaction.crypto_out_no_fee, visual_style=visual_style, data_style=\"crypto\")\n            self._fill_cell(sheet, row_index, 7, transaction.crypto_fee, visual_style=visual_style, data_style=\"crypto\")",
    ),
)
m(
    "c13_summary_basis_shows_proceeds",
    ["C13"],
    "per-asset Gain / Loss Summary: cost-basis column filled with the fiat taxable total",
    (
        "plugin/report/rp2_full_report.py",
        "                7,\n                yearly_gain_loss.fiat_cost_basis,",
        "                7,\n                yearly_gain_loss.fiat_amount,",
    ),
)
m(
    "c13_holder_total_from_acquired",
    ["C13"],
    "per-holder 'Total' rows accumulate the acquired balance instead of the final balance",
    ("plugin/report/rp2_full_report.py", "value += balance.final_balance", "value += balance.acquired_balance"),
)
m(
    "c13_detail_lot_label_uses_event_total",
    ["C13"],
    "acquired-lot label 'a of b' printed with the taxable event's amount as b",
    (
        "plugin/report/rp2_full_report.py",
        "                    f\"{gain_loss.crypto_amount:.8f} of \"\n                    f\"{gain_loss.acquired_lot.crypto_balance_change:.8f} \"\n                    f\"{asset}\"\n                )\n                self._fill_cell(\n                    sheet,\n                    row_index,\n                    12,",
        "                    f\"{gain_loss.crypto_amount:.8f} of \"\n                    f\"{gain_loss.taxable_event.crypto_balance_change:.8f} \"\n                    f\"{asset}\"\n                )\n                self._fill_cell(\n                    sheet,\n                    row_index,\n                    12,",
    ),
)
m(
    "c13_sheet_one_row_short",
    ["C13", "C16"],
    "In-Out sheet sized without the intra-transaction count (rows beyond the sheet)",
    (
        "plugin/report/rp2_full_report.py",
        "return self.MIN_ROWS + computed_data.in_transaction_set.count + computed_data.out_transaction_set.count + computed_data.intra_transaction_set.count",
        "return 8 + computed_data.in_transaction_set.count + computed_data.out_transaction_set.count",
    ),
)
m(
    "c13_intra_running_sum_of_sent",
    ["C13"],
    "Intra-Flow fee running sum column shows the transfer's own fee instead of the running sum",
    (
        "plugin/report/rp2_full_report.py",
        "self._fill_cell(sheet, row_index, 11, computed_data.get_crypto_intra_fee_running_sum(transaction), data_style=\"crypto\", visual_style=visual_style)",
        "self._fill_cell(sheet, row_index, 11, transaction.crypto_fee, data_style=\"crypto\", visual_style=visual_style)",
    ),
)

# ---------------------------------------------------------------- C19
m(
    "c19_out_rows_off_by_one",
    ["C19"],
    "row recorded for out-transactions is one too far (links land on the next row)",
    (
        "plugin/report/rp2_full_report.py",
        "            self._fill_cell(sheet, row_index, 15, transaction.notes, visual_style=\"transparent\")\n\n            self.__in_out_sheet_transaction_2_row[transaction] = row_index + 1\n\n            row_index += 1\n\n        return row_index\n\n    def __generate_intra_table",
        "            self._fill_cell(sheet, row_index, 15, transaction.notes, visual_style=\"transparent\")\n\n            self.__in_out_sheet_transaction_2_row[transaction] = row_index + 2\n\n            row_index += 1\n\n        return row_index\n\n    def __generate_intra_table",
    ),
)
m(
    "c19_f6_reintroduced",
    ["C19"],
    "pre-fix F6: transaction->row map not cleared per asset",
    ("plugin/report/rp2_full_report.py", "        self.__in_out_sheet_transaction_2_row.clear()\n", ""),
)
m(
    "c19_summary_year_row_last",
    ["C19"],
    "Summary links point at the last detail row of the year instead of the first",
    (
        "plugin/report/rp2_full_report.py",
        "            if gain_loss.taxable_event.timestamp.year != year:\n                self.__tax_sheet_year_2_row",
        "            if True:\n                self.__tax_sheet_year_2_row",
    ),
)
m(
    "c19_link_sheet_of_first_asset",
    ["C19"],
    "hyperlinks of the lot columns name the In-Out sheet of the taxable event's asset captured at class level (first asset)",
    (
        "plugin/report/rp2_full_report.py",
        "    @staticmethod\n    def get_in_out_sheet_name(asset: str) -> str:\n        return _(\"{} In-Out\").format(asset)",
        "    _first_asset = None\n\n    @staticmethod\n    def get_in_out_sheet_name(asset: str) -> str:\n        if Generator._first_asset is None:\n            Generator._first_asset = asset\n        return _(\"{} In-Out\").format(Generator._first_asset)",
    ),
)

# ---------------------------------------------------------------- C14
m(
    "c14_row_indexes_reset_per_asset",
    ["C14"],
    "tax_report_us: next-row counters copied per asset (a second asset overwrites the first one's rows)",
    (
        "plugin/report/us/tax_report_us.py",
        "self.__generate(output_file, asset, computed_data.gain_loss_set, row_indexes)",
        "self.__generate(output_file, asset, computed_data.gain_loss_set, row_indexes if asset == min(asset_to_computed_data) else dict(row_indexes))",
    ),
)
m(
    "c14_lost_on_capital_gains_sheet",
    ["C14"],
    "tax_report_us: LOST fractions listed on the Capital Gains sheet",
    (
        "plugin/report/us/tax_report_us.py",
        "        TransactionType.LOST,\n        TransactionType.MOVE,\n    ),",
        "        TransactionType.MOVE,\n    ),",
    ),
    (
        "plugin/report/us/tax_report_us.py",
        "    SheetNames.CAPITAL_GAINS.value: (TransactionType.SELL,),",
        "    SheetNames.CAPITAL_GAINS.value: (TransactionType.SELL, TransactionType.LOST),",
    ),
)
m(
    "c14_single_row_sheet_removed",
    ["C14"],
    "tax_report_us: a sheet holding exactly one row is treated as empty and removed",
    (
        "plugin/report/us/tax_report_us.py",
        "row_indexes[sheet_name] == Generator.HEADER_ROWS:",
        "row_indexes[sheet_name] <= Generator.HEADER_ROWS + 1:",
    ),
)
m(
    "c14_ie_proceeds_of_whole_event",
    ["C14"],
    "tax_report_ie: proceeds column shows the whole event's fiat amount instead of the fraction's",
    (
        "plugin/report/ie/tax_report_ie.py",
        "self._fill_cell(sheet, row_index, 4, gain_loss.taxable_event_fiat_amount_with_fee_fraction,",
        "self._fill_cell(sheet, row_index, 4, gain_loss.taxable_event.fiat_taxable_amount,",
    ),
)

# ---------------------------------------------------------------- C15
m(
    "c15_zero_balance_rows_listed",
    ["C15"],
    "open_positions: accounts with a zero final balance are listed (>= instead of >)",
    ("plugin/report/open_positions.py", "if balance_set.final_balance > ZERO:", "if balance_set.final_balance >= ZERO:"),
)
m(
    "c15_unsold_cost_without_fee",
    ["C15"],
    "open_positions: cost of unsold lots taken from fiat_in_no_fee (acquisition fee dropped)",
    (
        "plugin/report/open_positions.py",
        "transaction_cost_basis: RP2Decimal = in_transaction.fiat_in_with_fee * (RP2Decimal(\"1\") - sold_percent)",
        "transaction_cost_basis: RP2Decimal = in_transaction.fiat_in_no_fee * (RP2Decimal(\"1\") - sold_percent)",
    ),
)
m(
    "c15_partial_lots_counted_in_full",
    ["C15"],
    "open_positions: a partially sold lot is counted with its full cost",
    (
        "plugin/report/open_positions.py",
        "transaction_cost_basis: RP2Decimal = in_transaction.fiat_in_with_fee * (RP2Decimal(\"1\") - sold_percent)",
        "transaction_cost_basis: RP2Decimal = in_transaction.fiat_in_with_fee if sold_percent < RP2Decimal(\"1\") else ZERO",
    ),
)
m(
    "c15_weight_over_asset_cost",
    ["C15"],
    "open_positions: Asset sheet weight divided by the asset's cost instead of the portfolio's",
    (
        "plugin/report/open_positions.py",
        "self._fill_cell(asset_sheet, asset_row_index, 5, holder_cost_basis / total_cost_basis, data_style=\"percent\")",
        "self._fill_cell(asset_sheet, asset_row_index, 5, holder_cost_basis / asset_cost_basis, data_style=\"percent\")",
    ),
)
m(
    "c15_exchange_balance_first_holder_only",
    ["C15"],
    "open_positions: per-exchange balances keyed by exchange only (second holder on the same exchange lost)",
    (
        "plugin/report/open_positions.py",
        "if balance_set.exchange not in asset_crypto_balance_holder_exchange[asset][balance_set.holder]:",
        "if not any(balance_set.exchange in v for v in asset_crypto_balance_holder_exchange[asset].values()):",
    ),
)

# ---------------------------------------------------------------- C20
m(
    "c20_f8_first_seen_order",
    ["C20"],
    "pre-fix F8 (part): year sheets generated in first-seen order",
    (
        "plugin/report/jp/tax_report_jp.py",
        "for year, transaction_set in sorted(years_2_transaction_sets.items()):",
        "for year, transaction_set in years_2_transaction_sets.items():",
    ),
)
m(
    "c20_opening_balance_year_minus_one",
    ["C20"],
    "pre-fix F8 (part): opening balance refers to sheet year-1",
    (
        "plugin/report/jp/tax_report_jp.py",
        "previous_year_sheet_name: str = self.get_tax_sheet_name(asset, previous_year)",
        "previous_year_sheet_name: str = self.get_tax_sheet_name(asset, year - 1)",
    ),
)
m(
    "c20_transactions_not_time_sorted",
    ["C20"],
    "year sheet rows left in table order (IN, OUT, INTRA) instead of time order",
    (
        "plugin/report/jp/tax_report_jp.py",
        "transaction_list=sorted(transaction_set, key=lambda x: x.timestamp),",
        "transaction_list=transaction_set,",
    ),
)
m(
    "c20_out_amount_without_fee",
    ["C20"],
    "sold amount column shows crypto_out_no_fee (fee left out of the units sold)",
    (
        "plugin/report/jp/tax_report_jp.py",
        "sales_crypto_amount=transaction.crypto_out_with_fee,",
        "sales_crypto_amount=transaction.crypto_out_no_fee,",
    ),
)
m(
    "c20_summary_points_to_wrong_row",
    ["C20"],
    "summary sheet closing-balance formula points one row too high",
    (
        "plugin/report/jp/tax_report_jp.py",
        "self._fill_cell(year_summary_sheet, self.__year_row_offset[year], 4, f\"='{self.get_tax_sheet_name(asset, year)}'.I{row_index+9}\", apply_style=False)",
        "self._fill_cell(year_summary_sheet, self.__year_row_offset[year], 4, f\"='{self.get_tax_sheet_name(asset, year)}'.I{row_index+8}\", apply_style=False)",
    ),
)
m(
    "c20_return_offset_off_by_one",
    ["C20"],
    "offset handed to the next year is one row too low (next year's opening balance reads the wrong cells)",
    ("plugin/report/jp/tax_report_jp.py", "        return row_index + 9\n", "        return row_index + 8\n"),
)

# ---------------------------------------------------------------- C17
m(
    "c17_assets_not_sorted",
    ["C17"],
    "assets processed in set-iteration order (depends on the hash seed) instead of sorted",
    ("rp2_main.py", "            assets = list(configuration.assets)\n        assets.sort()\n", "            assets = list(configuration.assets)\n"),
)
m(
    "c17_hifo_tiebreak_on_object_id",
    ["C17"],
    "HIFO breaks price+time ties on id(lot) instead of the row",
    ("plugin/accounting_method/hifo.py", "AcquiredLotSortKey(-lot.spot_price, lot.timestamp.timestamp(), lot.row)", "AcquiredLotSortKey(-lot.spot_price, ZERO_TS, id(lot))"),
    ("plugin/accounting_method/hifo.py", "from rp2.in_transaction import InTransaction\n", "from rp2.in_transaction import InTransaction\n\nZERO_TS = 0.0\n"),
)
m(
    "c17_stale_report_kept_as_backup",
    ["C17"],
    "an existing report is not removed first: ezodf then leaves a .bak next to it and the content of a re-run directory differs",
    ("plugin/report/abstract_ods_generator.py", "            output_file_path.unlink()\n", "            pass\n"),
)
m(
    "c17_legend_shows_generation_time",
    ["C17"],
    "legend sheet stamped with the wall-clock time of the run",
    (
        "plugin/report/abstract_ods_generator.py",
        "                cls._fill_cell(legend_sheet, index + 2, 1, to_date if to_date != MAX_DATE else \"non-specified\", visual_style=\"transparent\")\n",
        "                import datetime as _dt\n\n                cls._fill_cell(legend_sheet, index + 2, 1, to_date if to_date != MAX_DATE else f\"non-specified (generated {_dt.datetime.now().isoformat()})\", visual_style=\"transparent\")\n",
    ),
)
