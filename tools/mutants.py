#!/venv/bin/python
"""Sensitivity protocol: apply a named mutation to a scratch copy of /repo/src (never to /repo), run a check's quick
tier against it (PYTHONPATH first), report whether the check fails.  Scratch copies live under /tmp and are removed.

usage: tools/mutants.py list | run <mutant> [<mutant> ...] | all [Cnn]
"""
import json
import os
import shutil
import subprocess
import sys
import tempfile
import time

VERIF = os.path.dirname(os.path.dirname(os.path.abspath(__file__)))
sys.path.insert(0, VERIF)
from tools.mutant_table import MUTANTS  # noqa: E402


def run_mutant(name: str, examples: str = "") -> dict:
    spec = MUTANTS[name]
    scratch = tempfile.mkdtemp(prefix="rp2v_mut_")
    try:
        shutil.copytree("/repo/src", os.path.join(scratch, "src"), ignore=shutil.ignore_patterns("__pycache__", "*.egg-info"))
        for rel, old, new in spec["edits"]:
            path = os.path.join(scratch, "src", "rp2", rel)
            text = open(path, encoding="utf-8").read()
            if text.count(old) != 1:
                return {"mutant": name, "error": f"pattern occurs {text.count(old)}x in {rel}"}
            open(path, "w", encoding="utf-8").write(text.replace(old, new))
        results = {}
        for check in spec["checks"]:
            env = dict(os.environ)
            env["PYTHONPATH"] = os.path.join(scratch, "src")
            env["RP2V_REPO_SRC"] = os.path.join(scratch, "src", "rp2")
            env["RP2V_EVIDENCE_DIR"] = os.path.join(scratch, "evidence")
            env["RP2V_REPLAY_DIR"] = os.path.join(scratch, "replays")
            env["PYTHONDONTWRITEBYTECODE"] = "1"
            start = time.time()
            cmd = [os.path.join(VERIF, "check"), check, "--tier", "quick"]
            if examples:
                cmd += ["--examples", examples]
            proc = subprocess.run(cmd, cwd=VERIF, env=env, capture_output=True, text=True)
            clause = [line for line in proc.stdout.splitlines() if line.startswith("violated clause")]
            results[check] = {"exit": proc.returncode, "wall_s": round(time.time() - start, 1), "clauses": clause[:3]}
            if proc.returncode == 2:
                results[check]["tail"] = (proc.stdout + proc.stderr)[-800:]
        return {"mutant": name, "property": spec.get("property"), "desc": spec["desc"], "results": results}
    finally:
        shutil.rmtree(scratch, ignore_errors=True)


def main() -> None:
    args = sys.argv[1:]
    if not args or args[0] == "list":
        for name, spec in MUTANTS.items():
            print(f"{name:40s} {','.join(spec['checks']):12s} {spec['desc']}")
        return
    examples = ""
    if "--examples" in args:
        i = args.index("--examples")
        examples = args[i + 1]
        del args[i : i + 2]
    if args[0] == "all":
        names = [n for n, s in MUTANTS.items() if len(args) < 2 or args[1] in s["checks"]]
    else:
        names = args[1:] if args[0] == "run" else args
    for name in names:
        res = run_mutant(name, examples)
        print(json.dumps(res))
        sys.stdout.flush()


if __name__ == "__main__":
    main()
