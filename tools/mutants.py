#!/venv/bin/python
"""Sensitivity protocol: apply a named mutation to a scratch copy of /repo/src (never to /repo), run a check's quick
tier against it (PYTHONPATH first), report whether the check fails.  Scratch copies live under /tmp and are removed.

usage: tools/mutants.py list | run <mutant> [<mutant> ...] | all [Cnn] [--jobs N] | report <results.jsonl> [...]
"""
import json
import os
import shutil
import subprocess
import sys
import tempfile
import time

VERIF = os.path.dirname(os.path.dirname(os.path.abspath(__file__)))
sys.path.insert(0, VERIF)
from tools.mutant_table import MUTANTS  # noqa: E402


def run_mutant(name: str, examples: str = "") -> dict:
    spec = MUTANTS[name]
    scratch = tempfile.mkdtemp(prefix="rp2v_mut_")
    try:
        shutil.copytree("/repo/src", os.path.join(scratch, "src"), ignore=shutil.ignore_patterns("__pycache__", "*.egg-info"))
        for rel, old, new in spec["edits"]:
            path = os.path.join(scratch, "src", "rp2", rel)
            text = open(path, encoding="utf-8").read()
            if text.count(old) != 1:
                return {"mutant": name, "error": f"pattern occurs {text.count(old)}x in {rel}"}
            open(path, "w", encoding="utf-8").write(text.replace(old, new))
        results = {}
        for check in spec["checks"]:
            env = dict(os.environ)
            env["PYTHONPATH"] = os.path.join(scratch, "src")
            env["RP2V_REPO_SRC"] = os.path.join(scratch, "src", "rp2")
            env["RP2V_EVIDENCE_DIR"] = os.path.join(scratch, "evidence")
            env["RP2V_REPLAY_DIR"] = os.path.join(scratch, "replays")
            env["PYTHONDONTWRITEBYTECODE"] = "1"
            env.setdefault("RP2V_FAST_FAIL", "1")
            start = time.time()
            cmd = [os.path.join(VERIF, "check"), check, "--tier", "quick"]
            if examples:
                cmd += ["--examples", examples]
            proc = subprocess.run(cmd, cwd=VERIF, env=env, capture_output=True, text=True)
            clause = [line for line in proc.stdout.splitlines() if line.startswith("violated clause")]
            results[check] = {"exit": proc.returncode, "wall_s": round(time.time() - start, 1), "clauses": clause[:3]}
            if proc.returncode == 2:
                results[check]["tail"] = (proc.stdout + proc.stderr)[-800:]
        return {"mutant": name, "property": spec.get("property"), "desc": spec["desc"], "results": results}
    finally:
        shutil.rmtree(scratch, ignore_errors=True)


def main() -> None:
    args = sys.argv[1:]
    if not args or args[0] == "list":
        for name, spec in MUTANTS.items():
            print(f"{name:40s} {','.join(spec['checks']):12s} {spec['desc']}")
        return
    examples = ""
    if "--examples" in args:
        i = args.index("--examples")
        examples = args[i + 1]
        del args[i : i + 2]
    jobs = 1
    if "--jobs" in args:
        i = args.index("--jobs")
        jobs = int(args[i + 1])
        del args[i : i + 2]
    if args[0] == "report":
        report(args[1:])
        return
    if args[0] == "all":
        names = [n for n, s in MUTANTS.items() if len(args) < 2 or args[1] in s["checks"]]
    else:
        names = args[1:] if args[0] == "run" else args
    if jobs > 1:
        from concurrent.futures import ThreadPoolExecutor

        with ThreadPoolExecutor(max_workers=jobs) as pool:
            for res in pool.map(lambda n: run_mutant(n, examples), names):
                print(json.dumps(res))
                sys.stdout.flush()
        return
    for name in names:
        res = run_mutant(name, examples)
        print(json.dumps(res))
        sys.stdout.flush()


def report(paths) -> None:
    """Markdown table (SENSITIVITY.md body) from one or more result files; later files override earlier ones."""
    results = {}
    for path in paths:
        for line in open(path, encoding="utf-8"):
            line = line.strip()
            if line.startswith("{"):
                res = json.loads(line)
                results[res["mutant"]] = res
    print("| mutant | property | change | detected by (quick tier) | first violated clause |")
    print("|---|---|---|---|---|")
    killed = 0
    for name, spec in MUTANTS.items():
        res = results.get(name)
        if res is None or "error" in res:
            print(f"| {name} | {spec['property']} | {spec['desc']} | not run | {(res or {}).get('error', '')} |")
            continue
        hits = [c for c, r in res["results"].items() if r["exit"] == 1]
        miss = [c for c, r in res["results"].items() if r["exit"] != 1]
        clause = next((r["clauses"][0].replace("violated clause: ", "") for r in res["results"].values() if r["clauses"]), "")
        if spec["property"] in hits:
            killed += 1
        cell = ", ".join(hits) + (f" (not by {', '.join(miss)})" if miss else "")
        print(f"| {name} | {spec['property']} | {spec['desc']} | {cell or 'MISSED'} | {clause} |")
    print(f"\n{killed} of {len(MUTANTS)} mutants are detected by the quick tier of the check of the property they break.")


if __name__ == "__main__":
    main()
